"""Callables whose definition hash is examined across interpreter processes (run as a script: prints JSON).

STABLE: hash must be equal in every interpreter process (otherwise a DiskCache entry can never be hit after a restart).
DISTINCT: pairs of different definitions whose hashes must differ (otherwise they serve each other's cache entries).
BUILDABLE: constructing a node from them must not raise.
"""
import functools
import json
import sys


class Plain:
    pass


class Service:
    def __init__(self, scale, helper=None):
        self.scale = scale
        self.helper = helper

    def apply(self, a):
        return a * self.scale

    @classmethod
    def make(cls, a):
        return a


def with_set_literal(a):
    return a in {"alpha", "beta", "gamma", "delta", "epsilon"}


def deco(f):
    @functools.wraps(f)
    def wrapper(a):
        return f(a)

    return wrapper


@deco
def decorated(a):
    return a + 1


def closure_over(obj):
    def f(a):
        return (a, obj)

    return f


def two_cells(p, q):
    def f(a):
        return (a, p, q)

    return f


class BadRepr:
    def __repr__(self):
        raise AttributeError("not ready")


def deep_list(n=5000):
    x = []
    for _ in range(n):
        x = [x]
    return x


def exec_fn(src):
    ns = {}
    exec(src, ns)
    return ns["f"]


def battery():
    from hypergraph._utils import hash_definition as h

    stable = {
        "set_literal": with_set_literal,
        "functools_wraps": decorated,
        "bound_method_plain_state": Service(2).apply,
        "bound_method_state_holding_a_function": Service(2, helper=decorated).apply,
        "classmethod": Service.make,
        "closure_over_set_of_strings": closure_over({"alpha", "beta", "gamma", "delta"}),
        "closure_over_nested_plain_data": closure_over({"k": [1, ("a", {"x", "y", "z"})], "f": 1.5}),
        "default_holding_a_frozenset": exec_fn("def f(a, tags=frozenset({'p', 'q', 'r', 's'})):\n    return a\n"),
    }
    distinct = {
        "cells_1_23_vs_12_3": (two_cells(1, 23), two_cells(12, 3)),
        "genexpr_body": (exec_fn("def f(a):\n    return sum(x * 2 for x in a)\n"), exec_fn("def f(a):\n    return sum(x * 3 for x in a)\n")),
        "inner_lambda": (exec_fn("f = lambda a: sorted(a, key=lambda v: v)\n"), exec_fn("f = lambda a: sorted(a, key=lambda v: -v)\n")),
        "instance_state_one_level_down": (Service(2, helper=Service(3)).apply, Service(2, helper=Service(30)).apply),
        "bound_methods": (Service(2).apply, Service(10).apply),
        "closures_over_two_opaque_objects": (closure_over(Plain()), closure_over(Plain())),
        "bound_builtin_methods": (closure_over("a+".upper), closure_over("b+".upper)),
    }
    out = {"stable": {k: h(v) for k, v in stable.items()}, "distinct": {k: h(a) != h(b) for k, (a, b) in distinct.items()}, "buildable": {}}
    from hypergraph import FunctionNode

    for name, make in (("closure_over_deep_list", lambda: closure_over(deep_list())), ("closure_over_object_whose_repr_raises", lambda: closure_over(BadRepr()))):
        try:
            FunctionNode(make(), name="n", output_name="o")
            out["buildable"][name] = True
        except BaseException as e:  # noqa: BLE001
            out["buildable"][name] = f"{type(e).__name__}"
    return out


if __name__ == "__main__":
    sys.setrecursionlimit(3000)
    print(json.dumps(battery(), sort_keys=True))
