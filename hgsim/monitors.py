"""History checkers shared by several properties."""

from __future__ import annotations

from typing import Any

from .rt import Runtime
from .util import canon


def _outs_of(rt: Runtime, rec: dict) -> dict[str, Any]:
    spec = rt.node_specs.get(rec["n"])
    if spec is None or spec.get("kind") != "fn" or spec.get("beh", "mix") != "mix":
        return {}  # only hash-valued outputs: small counters could coincide by accident
    outs = spec.get("outs", [])
    v = rec.get("v")
    if not outs:
        return {}
    if len(outs) == 1:
        return {outs[0]: v}
    if isinstance(v, tuple) and len(v) == len(outs):
        return dict(zip(outs, v))
    return {}


def check_step_isolation(rt: Runtime) -> list[tuple[str, Any]]:
    """Nodes that run in the same step never observe each other's outputs of that step.

    Uses the step tap: for every run label, values committed by *finished* steps are
    tracked; an argument that equals a value produced earlier in the *current* step by a
    sibling (and differs from what was committed before the step) is a leak.
    Only function nodes of the same graph execution are considered (graph-node outputs
    are covered differentially through node-order permutation).
    """
    if not getattr(rt, "tap_active", False):
        return []
    committed: dict[str, dict[str, Any]] = {}
    current: dict[str, dict[str, Any]] = {}
    in_step: dict[str, bool] = {}
    viol: list[tuple[str, Any]] = []
    for h in rt.history:
        k = h["k"]
        r = h.get("r")
        if k == "step_begin":
            current[r] = {}
            in_step[r] = True
            committed.setdefault(r, {})
        elif k == "step_end":
            committed.setdefault(r, {}).update(current.get(r, {}))
            current[r] = {}
            in_step[r] = False
        elif k == "enter" and in_step.get(r):
            cur = current.get(r, {})
            com = committed.get(r, {})
            for name, val in h["a"].items():
                if name in cur and canon(cur[name]) == canon(val) and (name not in com or canon(com[name]) != canon(val)):
                    viol.append(("same_step_output_observed", {"node": h["n"], "param": name, "value": val, "run": r}))
        elif k == "exit" and in_step.get(r) and h.get("nk") is None:
            current.setdefault(r, {}).update(_outs_of(rt, h))
    return viol
