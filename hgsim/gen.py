"""Program generators (JSON specs) shared by the checks.

Everything here draws only from the ``random.Random`` it is given and never
iterates a set, so a case is a pure function of its seed under any PYTHONHASHSEED.
"""

from __future__ import annotations

import random
from typing import Any

from .util import mix

DELAY_CHOICES = [
    [0],
    [0, 1],
    [0, 0, 1, 1, 2, 5],
    [1, 2, 3, 4, 5, 6, 7],
    [0, None],
    [None],
    [0, 1, [1, 1], [0, 2], None, 3],
]


def gen_schedule(rng: random.Random, *, allow_hold: bool = True) -> dict:
    """A schedule description: data, not a PRNG side effect."""
    r = rng.random()
    if allow_hold and r < 0.3:
        mode = "hold"
    else:
        mode = "delay"
    sch = {"mode": mode, "seed": rng.randrange(1 << 30), "choices": rng.choice(DELAY_CHOICES), "delays": {}}
    if rng.random() < 0.05:
        sch["clock_jumps"] = {str(rng.randrange(40)): rng.choice([-5000.0, 3600.0, -1.0])}
    return sch


def gen_async_cfg(rng: random.Random, *, allow_hold: bool = True) -> dict:
    return {
        "schedule": gen_schedule(rng, allow_hold=allow_hold),
        "shuffle": rng.randrange(1 << 30) if rng.random() < 0.25 else None,
        "max_concurrency": rng.choice([None, None, 1, 2, 3]),
    }


# --------------------------------------------------------------------- DAGs
def gen_dag(
    rng: random.Random,
    *,
    max_nodes: int = 8,
    max_params: int = 4,
    p_edge_default: float = 0.15,
    p_ext_default: float = 0.4,
    prefix: str = "",
    name: str | None = "top",
    allow_zero_out: bool = True,
) -> dict:
    """Random gate-free DAG.  Nodes consume only earlier outputs (generation order is topological)."""
    n = rng.randint(1, max_nodes)
    ext = [f"{prefix}i{k}" for k in range(rng.randint(1, 4))]
    defaults: dict[str, int] = {e: mix("def", e) % 1000 for e in ext if rng.random() < p_ext_default}
    avail = list(ext)
    nodes: list[dict] = []
    for i in range(n):
        k = rng.randint(0, min(max_params, len(avail)))
        # bias towards recent outputs so that chains and diamonds appear
        if k and rng.random() < 0.6 and len(avail) > len(ext):
            recent = avail[len(ext):][-4:]
            first = rng.choice(recent)
            rest = [a for a in avail if a != first]
            params = [first] + rng.sample(rest, min(k - 1, len(rest)))
        else:
            params = rng.sample(avail, k)
        nout = rng.choice([0, 1, 1, 1, 1, 2, 3]) if allow_zero_out else rng.choice([1, 1, 1, 2, 3])
        outs = [f"{prefix}o{i}_{j}" for j in range(nout)]
        nodes.append({"kind": "fn", "name": f"{prefix}n{i}", "params": [{"name": p} for p in params], "outs": outs})
        avail += outs
    produced = [o for nd in nodes for o in nd["outs"]]
    for p in produced:
        if rng.random() < p_edge_default:
            defaults[p] = mix("def", p) % 1000
    for nd in nodes:
        for p in nd["params"]:
            if p["name"] in defaults:
                p["default"] = defaults[p["name"]]
    order = list(range(n))
    rng.shuffle(order)
    return {"name": name, "nodes": nodes, "order": order, "ext": ext}


def gname(nd: dict, p: dict) -> str:
    """Graph-level name a function parameter is wired to (after rename_inputs)."""
    return (nd.get("rename_inputs") or {}).get(p["name"], p["name"])


def dag_consumed_ext(g: dict) -> list[str]:
    used = []
    for nd in g["nodes"]:
        for p in nd.get("params", []):
            gn = gname(nd, p)
            if gn in g["ext"] and gn not in used:
                used.append(gn)
    return used


def add_fn_renames(rng: random.Random, g: dict, p_node: float = 0.3) -> int:
    """Rename function-node inputs (rename_inputs): fresh names, parallel swaps, rotations.

    ``params`` stay the function's own parameters; the default of a parameter is the default of
    the graph-level name it is wired to (defaults are per graph name, consistently)."""
    defaults = {}
    for nd in g["nodes"]:
        for p in nd["params"]:
            if "default" in p:
                defaults[p["name"]] = p["default"]
    n = 0
    for nd in g["nodes"]:
        if nd["kind"] != "fn" or not nd["params"] or rng.random() >= p_node:
            continue
        names = [p["name"] for p in nd["params"]]
        style = rng.choice(["fresh", "swap", "swap", "rotate"])
        if style == "fresh" or len(names) < 2:
            x = rng.choice(names)
            ri = {"q_" + x: x}
            new = [{"name": ("q_" + x) if nm == x else nm} for nm in names]
        elif style == "swap" or len(names) < 3:
            a, b = rng.sample(names, 2)
            ri = {a: b, b: a}
            new = [{"name": nm} for nm in names]
        else:
            a, b, c = rng.sample(names, 3)
            ri = {a: b, b: c, c: a}
            new = [{"name": nm} for nm in names]
        for q in new:
            gn = ri.get(q["name"], q["name"])
            if gn in defaults:
                q["default"] = defaults[gn]
        nd["params"] = new
        nd["rename_inputs"] = ri
        n += 1
    return n


def gen_inputs(rng: random.Random, g: dict, *, p_bind: float = 0.3, p_omit: float = 0.5) -> dict:
    """Values for the external names of a DAG: provide table, bound table, omit list."""
    used = dag_consumed_ext(g)
    provide = {e: mix("p", e) for e in used}
    bind = {e: mix("b", e) for e in used if rng.random() < p_bind}
    omit = [e for e in used if rng.random() < p_omit]
    return {"provide": provide, "bind": bind, "omit": omit}


FALSY_VALUES = [0, False, "", [], None]


def node_out_value(nd: dict, j: int, args: dict) -> Any:
    """Value of output j of a generated function node (must agree with hgsim/rt.py:Runtime._value)."""
    from .util import canon

    if nd.get("beh") == "const":
        v = nd["beh_value"]
        return list(v) if isinstance(v, list) else v
    basis = [(k, canon(v)) for k, v in sorted(args.items())]
    return mix(nd.get("fid", nd["name"]), j, basis)


def add_falsy_consts(rng: random.Random, g: dict, p_node: float = 0.1) -> int:
    """Some function nodes return legal but falsy constants (0, False, "", [], None)."""
    n = 0
    for nd in g["nodes"]:
        if nd["kind"] == "fn" and nd.get("outs") and not nd.get("beh") and not nd.get("gen") and rng.random() < p_node:
            nd["beh"] = "const"
            nd["beh_value"] = rng.choice(FALSY_VALUES)
            n += 1
    return n


def eval_dag(g: dict, provided: dict, bound: dict) -> dict[str, Any]:
    """Reference evaluator: dependency order, upstream > run-time > bound > default.

    Returns {"values": {...}, "args": {node: args or None when unrunnable}}.
    """
    vals: dict[str, Any] = {}
    args_of: dict[str, dict | None] = {}
    for nd in g["nodes"]:
        a: dict[str, Any] = {}
        ok = True
        for p in nd.get("params", []):
            pn = p["name"]  # what the function sees
            gn = gname(nd, p)  # the graph-level name it is wired to
            if gn in vals:
                a[pn] = vals[gn]
            elif gn in provided:
                a[pn] = provided[gn]
            elif gn in bound:
                a[pn] = bound[gn]
            elif "default" in p:
                a[pn] = p["default"]
            else:
                ok = False
        if not ok:
            args_of[nd["name"]] = None
            continue
        args_of[nd["name"]] = a
        for j, o in enumerate(nd.get("outs", [])):
            vals[o] = node_out_value(nd, j, a)
    return {"values": vals, "args": args_of}


def shape_of(g: dict) -> str:
    """Structural digest of a program spec (names matter: they are the wiring)."""
    from .util import digest

    def strip(x: Any) -> Any:
        if isinstance(x, dict):
            return {k: strip(v) for k, v in x.items() if k not in ("order",)}
        if isinstance(x, list):
            return [strip(v) for v in x]
        return x

    return digest(strip(g), 8)


# ----------------------------------------------------------- loop template
def loop_block(
    rng: random.Random,
    prefix: str,
    *,
    L: int | None = None,
    N: int | None = None,
    gate: str | None = None,
    exit_node: bool | None = None,
    signal: bool | None = None,
    default_open: bool | None = None,
    late: bool | None = None,
    gate_late: bool | None = None,
) -> dict:
    """Ring loop: b0..b{L-1} pass state s0..s{L-1}; the last body node increments and
    produces s0 again; gate g continues while s0 < N (targets b0 / END or an exit node).
    With ``signal`` the gate waits on a signal emitted by the last body node."""
    L = L if L is not None else rng.randint(1, 4)
    N = N if N is not None else rng.randint(0, 6)
    gate = gate or rng.choice(["route", "ifelse", "multi"])
    exit_node = rng.random() < 0.5 if exit_node is None else exit_node
    signal = rng.random() < 0.3 if signal is None else signal
    default_open = rng.random() < 0.7 if default_open is None else default_open
    late = (signal and rng.random() < 0.4) if late is None else (late and signal)
    if signal and not late:
        default_open = True  # closed gate waiting on its own targets' signal cannot start (excluded, DESIGN C04)
    s = [f"{prefix}s{i}" for i in range(L)]
    nodes: list[dict] = []
    for i in range(L):
        last = i == L - 1
        nd = {
            "kind": "fn",
            "name": f"{prefix}b{i}",
            "params": [{"name": s[i]}],
            "outs": [s[(i + 1) % L]],
            "beh": "inc" if last else "pass",
            "beh_param": s[i],
        }
        if last and signal and not late:
            nd["emit"] = [f"{prefix}done"]
        nodes.append(nd)
    if late:
        # the end-of-iteration signal is emitted by a separate node one step AFTER the state changed
        nodes.append({"kind": "fn", "name": f"{prefix}sg", "params": [{"name": s[0]}], "outs": [], "emit": [f"{prefix}done"]})
    tgt_exit = f"{prefix}fin" if exit_node else "@END"
    g = {
        "name": f"{prefix}g",
        "params": [{"name": s[0]}],
        "default_open": default_open,
        "decide": {"op": "lt", "param": s[0], "value": N, "then": f"{prefix}b0", "else": tgt_exit},
    }
    if gate == "route":
        g.update({"kind": "route", "targets": [f"{prefix}b0", tgt_exit]})
    elif gate == "multi":
        # multi-target route gate: decisions are lists
        g.update({"kind": "route", "multi": True, "targets": [f"{prefix}b0"] + ([tgt_exit] if exit_node else [])})
        g["decide"] = {"op": "lt", "param": s[0], "value": N, "then": [f"{prefix}b0"], "else": [tgt_exit] if exit_node else []}
    else:
        g.update({"kind": "ifelse", "when_true": f"{prefix}b0", "when_false": tgt_exit})
        g["decide"] = {"op": "lt", "param": s[0], "value": N, "then": True, "else": False}
    if signal:
        g["wait_for"] = [f"{prefix}done"]
    gate_late = (not signal and rng.random() < 0.2) if gate_late is None else (gate_late and not signal)
    if gate_late:
        # the gate also reads a limit computed by a set-up node: it is NOT runnable in the first step, the body is
        nodes.append({"kind": "fn", "name": f"{prefix}plan", "params": [{"name": f"{prefix}budget"}], "outs": [f"{prefix}lim"], "blk_setup": True})
        g["params"] = g["params"] + [{"name": f"{prefix}lim"}]
    nodes.append(g)
    if exit_node:
        nodes.append({"kind": "fn", "name": f"{prefix}fin", "params": [{"name": s[0]}], "outs": [f"{prefix}out"]})
    return {"nodes": nodes, "seed": s[0], "L": L, "N": N, "gate": gate, "exit": exit_node, "signal": signal, "open": default_open, "state": s, "prefix": prefix, "late": late, "gate_late": gate_late}


# --------------------------------------------------------- general programs
def gen_feats(rng: random.Random) -> dict:
    return {k: rng.random() < 0.5 for k in ("gates", "loops", "nested", "maps", "signals", "edge_defaults")}


def gen_program(
    rng: random.Random,
    *,
    depth: int = 2,
    feats: dict | None = None,
    prefix: str = "",
    avail_in: list[str] | None = None,
    max_nodes: int = 7,
    name: str | None = "top",
    force_param: str | None = None,
    p_gate: float = 0.18,
) -> dict:
    """General program: DAG + gates + loop blocks + nested / mapped graph nodes + signals.

    The returned spec carries ``ext`` (external int names), ``lists`` (names that must
    receive lists) and ``seeds`` (loop entry values), collected over all nesting levels.
    """
    feats = feats if feats is not None else gen_feats(rng)
    own_ext = [f"{prefix}i{k}" for k in range(rng.randint(1, 3))]
    defaults: dict[str, int] = {e: mix("def", e) % 1000 for e in own_ext if rng.random() < 0.4}
    used_by_inner: list[str] = []
    picked = []
    if avail_in:
        picked = rng.sample(avail_in, min(len(avail_in), rng.randint(0, 2)))
    ext = list(own_ext)
    lists: list[str] = []
    seeds: list[str] = []
    avail = picked + own_ext
    if force_param:
        avail.append(force_param)
    nodes: list[dict] = []
    slots = rng.randint(1, max_nodes)
    gates: list[tuple[int, dict]] = []
    first_fn = True
    for i in range(slots):
        r = rng.random()
        kind = "fn"
        if feats["gates"] and r < p_gate and i < slots - 1:
            kind = "gate"
        elif feats["nested"] and depth > 0 and p_gate <= r < p_gate + 0.12:
            kind = "nested"
        elif feats["maps"] and depth > 0 and p_gate + 0.12 <= r < p_gate + 0.20:
            kind = "map"
        elif feats["loops"] and p_gate + 0.20 <= r < p_gate + 0.28:
            kind = "loop"
        elif feats["gates"] and p_gate + 0.28 <= r < p_gate + 0.36:
            kind = "chain"
        if kind == "fn":
            k = rng.randint(0, min(3, len(avail)))
            params = rng.sample(avail, k)
            if force_param and first_fn and force_param not in params:
                params.append(force_param)
            first_fn = False
            nout = rng.choice([0, 1, 1, 1, 2])
            outs = [f"{prefix}o{i}_{j}" for j in range(nout)]
            nd_new = {"kind": "fn", "name": f"{prefix}n{i}", "params": [{"name": p} for p in params], "outs": outs, "_slot": i}
            if feats.get("gens") and nout == 1 and rng.random() < 0.15:
                nd_new["gen"] = True  # (async) generator function: the framework drains it into a list
            nodes.append(nd_new)
            avail += outs
        elif kind == "gate":
            k = rng.randint(1, min(2, len(avail)))
            g = {"name": f"{prefix}r{i}", "params": [{"name": p} for p in rng.sample(avail, k)], "_slot": i, "default_open": rng.random() < 0.6}
            gates.append((len(nodes), g))
            nodes.append(g)
        elif kind in ("nested", "map"):
            mname = f"{prefix}m{i}" if kind == "map" else None
            inner = gen_program(
                rng,
                depth=depth - 1,
                feats=feats if kind == "nested" else {**feats, "loops": False},
                prefix=f"{prefix}g{i}_",
                avail_in=[a for a in avail if a not in lists and a not in defaults],
                max_nodes=4,
                name=f"{prefix}g{i}",
                force_param=mname,
                p_gate=p_gate,
            )
            node = {"kind": "graph", "name": f"{prefix}g{i}", "graph": inner, "_slot": i}
            inner_outs = program_outputs(inner)
            if kind == "map":
                node["map_over"] = [mname]
                node["map_mode"] = "zip"
                node["error_handling"] = rng.choice(["raise", "continue"])
                lists.append(mname)
                lists += inner_outs
            ext += [e for e in inner["ext"] if e not in ext]
            used_by_inner += inner["picked"]
            lists += [x for x in inner["lists"] if x not in lists]
            seeds += inner["seeds"]
            nodes.append(node)
            avail += inner_outs
        elif kind == "chain":
            # a chain of gates: outer routes to the gate inner, inner routes to a function node; all three can become
            # runnable in the same step (their parameters are already available)
            src = [a for a in avail if a not in lists] or own_ext
            pa, pb, pc = rng.choice(src), rng.choice(src), rng.choice(src)
            on, inn, wn = f"{prefix}co{i}", f"{prefix}ci{i}", f"{prefix}cw{i}"
            t_outer = [inn] + (["@END"] if rng.random() < 0.5 else [])
            t_inner = [wn] + (["@END"] if rng.random() < 0.7 else [])
            nodes.append({"kind": "route", "name": on, "params": [{"name": pa}], "targets": t_outer, "default_open": rng.random() < 0.7, "decide": {"op": "mod", "choices": list(t_outer)}, "_slot": i, "blk": f"{prefix}c{i}", "chain": True})
            nodes.append({"kind": "route", "name": inn, "params": [{"name": pb}], "targets": t_inner, "default_open": rng.random() < 0.7, "decide": {"op": "mod", "choices": list(t_inner) + [None]}, "_slot": i, "blk": f"{prefix}c{i}", "chain": True})
            nodes.append({"kind": "fn", "name": wn, "params": [{"name": pc}], "outs": [f"{prefix}cwo{i}"], "_slot": i, "blk": f"{prefix}c{i}", "chain": True})
            avail.append(f"{prefix}cwo{i}")
        elif kind == "loop":
            blk = loop_block(rng, f"{prefix}L{i}", L=1 if prefix else None)
            for nd in blk["nodes"]:
                nd["_slot"] = i
                nd["blk"] = blk["prefix"]
                nodes.append(nd)
            seeds.append(blk["seed"])
            if blk["exit"]:
                avail.append(f"{prefix}L{i}out")
    if force_param and first_fn:
        nodes.append({"kind": "fn", "name": f"{prefix}nf", "params": [{"name": force_param}], "outs": [f"{prefix}of"], "_slot": slots})
    # gate targets: later non-gate nodes of this graph
    for idx, g in gates:
        later = [nd["name"] for nd in nodes[idx + 1 :] if nd.get("kind") in ("fn", "graph") and not nd.get("blk")]
        # a gate may also target a LATER GATE of this graph (gate chains)
        later_gates = [gg["name"] for j, gg in gates if j > idx]
        if later_gates and rng.random() < 0.35:
            later = later + [rng.choice(later_gates)]
        if not later:
            g.update({"kind": "route", "targets": ["@END"], "decide": {"op": "const", "value": "@END"}})
            continue
        style = rng.choice(["route", "route", "multi", "ifelse"])
        tg = rng.sample(later, min(len(later), rng.randint(1, 3)))
        if style == "ifelse":
            a = tg[0]
            b = tg[1] if len(tg) > 1 else "@END"
            if rng.random() < 0.5:
                a, b = b, a  # END may be the when_true branch
            g.update({"kind": "ifelse", "when_true": a, "when_false": b, "decide": {"op": "mod", "choices": [True, False]}})
        elif style == "multi":
            choices = [[], tg[:1], tg] + ([tg[1:]] if len(tg) > 1 else [])
            if rng.random() < 0.3:
                choices.append(None)  # a multi-target gate may answer None: nothing is selected
            g.update({"kind": "route", "targets": tg, "multi": True, "decide": {"op": "mod", "choices": choices}})
        else:
            targets = list(tg)
            if rng.random() < 0.45:
                targets.insert(rng.randrange(len(targets) + 1), "@END")  # END anywhere in the declared list
            choices = list(targets) + ([None] if rng.random() < 0.2 else [])
            g.update({"kind": "route", "targets": targets, "decide": {"op": "mod", "choices": choices}})
            if rng.random() < 0.25:
                # fallback: a declared target, or a further node (the constructor appends it after the declared ones)
                extra = [x for x in later if x not in tg]
                g["fallback"] = rng.choice(extra) if (extra and rng.random() < 0.6) else rng.choice(tg)
                g["decide"]["choices"] = choices + [None, None]
    # ordering signals between an earlier producer and a later waiter
    if feats["signals"]:
        cand = [nd for nd in nodes if nd["kind"] in ("fn", "route", "ifelse") and not nd.get("blk")]
        for _ in range(rng.randint(0, 2)):
            if len(cand) < 2:
                break
            a, b = sorted(rng.sample(range(len(cand)), 2))
            sig = f"{prefix}sig{a}_{b}"
            if sig in cand[a].get("emit", []):
                continue
            cand[a].setdefault("emit", []).append(sig)
            cand[b].setdefault("wait_for", []).append(sig)
    # defaults: by name, consistent across consumers of this graph level
    if feats["edge_defaults"]:
        for nd in nodes:
            if nd["kind"] == "fn" and not nd.get("blk"):
                for o in nd["outs"]:
                    if rng.random() < 0.12 and o not in used_by_inner:
                        defaults[o] = mix("def", o) % 1000
    for nd in nodes:
        if nd["kind"] in ("fn", "route", "ifelse") and (not nd.get("blk") or nd.get("chain")):
            for p in nd["params"]:
                if p["name"] in defaults:
                    p["default"] = defaults[p["name"]]
    # a signal whose producer RE-RUNS: the producer reads an upstream value through a default (it runs early on the default, then again
    # on the real value) and a later node waits for its signal - on the second round producer and waiter are ready in the same step
    if feats["signals"] and defaults and rng.random() < 0.5:
        okk = ("fn", "route", "ifelse")
        prods = [i for i, nd in enumerate(nodes) if nd["kind"] == "fn" and not nd.get("blk") and any("default" in p for p in nd["params"])]
        if prods:
            a = rng.choice(prods)
            later = [j for j in range(a + 1, len(nodes)) if nodes[j]["kind"] in okk and not nodes[j].get("blk")]
            fed = [j for j in later if any(p["name"] in nodes[a]["outs"] for p in nodes[j]["params"])]
            if later:
                b = rng.choice(fed or later)
                sig = f"{prefix}sgd{a}_{b}"
                nodes[a].setdefault("emit", []).append(sig)
                nodes[b].setdefault("wait_for", []).append(sig)
    for nd in nodes:
        nd.pop("_slot", None)
    order = list(range(len(nodes)))
    rng.shuffle(order)
    return {"name": name, "nodes": nodes, "order": order, "ext": ext, "lists": lists, "seeds": seeds, "own_ext": own_ext, "picked": picked}


def program_outputs(g: dict) -> list[str]:
    """Data output names a graph spec exposes (all levels bubble up; select narrows)."""
    outs: list[str] = []
    for nd in g["nodes"]:
        if nd["kind"] in ("fn", "interrupt"):
            outs += nd.get("outs", [])
        elif nd["kind"] == "graph":
            sub = program_outputs(nd["graph"])
            ren = {}
            for step in nd.get("renames", []):
                ren.update(step.get("outputs", {}))
            outs += [ren.get(o, o) for o in sub]
    if g.get("select"):
        outs = [o for o in outs if o in g["select"]]
    return outs


def program_inputs(rng: random.Random, g: dict, *, list_len: tuple[int, int] = (0, 4)) -> dict:
    provide: dict[str, Any] = {}
    for e in g["ext"]:
        if e in g["lists"]:
            continue
        provide[e] = mix("p", e)
    for m in mapped_params(g):
        n = rng.randint(*list_len)
        provide[m] = [mix("m", m, j) % 100000 for j in range(n)]
    for s in g["seeds"]:
        provide[s] = 0
    omit = [e for e in g["ext"] if rng.random() < 0.4]
    return {"provide": provide, "omit": omit}


def mapped_params(g: dict) -> list[str]:
    out: list[str] = []
    for nd in g["nodes"]:
        if nd["kind"] == "graph":
            out += nd.get("map_over") or []
            out += mapped_params(nd["graph"])
    return out


def fn_nodes(g: dict) -> list[tuple[dict, int]]:
    out = []
    for nd in g["nodes"]:
        if nd["kind"] == "fn":
            out.append((nd, 0))
        elif nd["kind"] == "graph":
            out += [(n, d + 1) for n, d in fn_nodes(nd["graph"])]
    return out


def gate_targets(nd: dict) -> list[str]:
    """All targets of a gate spec as the constructor sees them (declared ones, then an undeclared fallback)."""
    if nd["kind"] == "ifelse":
        return [nd["when_true"], nd["when_false"]]
    t = list(nd["targets"])
    fb = nd.get("fallback")
    if fb is not None and fb not in t:
        t.append(fb)
    return t


EXC_KINDS = ["plain", "plain", "noargs", "typeerror_kw", "keyerror", "valueerror", "falsy", "badstr"]


def gen_sibling_wrappers(rng: random.Random) -> dict:
    """One sub-graph template (ta: p -> y; tb: y, q -> z) mounted 2-3 times side by side, each wrapper renaming the template's
    input p and outputs y, z to its own names (optionally the very same inner Graph object is reused); a final node reads every
    wrapper's z. All wrappers are ready in the same step and finish in any order."""
    k = rng.randint(2, 3)
    share = rng.random() < 0.5
    tmpl = {"name": "T", "nodes": [{"kind": "fn", "name": "ta", "params": [{"name": "p"}], "outs": ["y"]}, {"kind": "fn", "name": "tb", "params": [{"name": "y"}, {"name": "q"}], "outs": ["z"]}], "order": [0, 1]}
    nodes: list[dict] = []
    ext = ["q"]
    for j in range(k):
        ren_out = {"y": f"y{j}", "z": f"z{j}"} if (j > 0 or rng.random() < 0.7) else {}
        # (unshared copies get their own function names so that the harness can tell the bodies apart)
        inner = tmpl if share else {"name": f"T{j}", "nodes": [dict(tmpl["nodes"][0], name=f"ta{j}"), dict(tmpl["nodes"][1], name=f"tb{j}")], "order": [0, 1]}
        nd = {"kind": "graph", "name": f"W{j}", "graph": inner, "renames": [{"inputs": {"p": f"p{j}"}, "outputs": ren_out}] if ren_out else [{"inputs": {"p": f"p{j}"}}]}
        if share:
            nd["share"] = "T"
        nodes.append(nd)
        ext.append(f"p{j}")
    zs = [(f"z{j}" if nodes[j]["renames"][0].get("outputs") else "z") for j in range(k)]
    nodes.append({"kind": "fn", "name": "fin", "params": [{"name": z} for z in zs], "outs": ["fz"]})
    order = list(range(len(nodes)))
    rng.shuffle(order)
    return {"name": "top", "nodes": nodes, "order": order, "ext": ext, "lists": [], "seeds": [], "siblings_program": True}


def gen_api(rng: random.Random) -> dict:
    """Which spelling of the public API builds the program (all are equivalent by documentation)."""
    return {"decorators": rng.random() < 0.3, "explicit_edges": rng.choice([True, "split"]) if rng.random() < 0.25 else False, "wrap_async": rng.random() < 0.2, "siblings": rng.random() < 0.3, "rename_emit": rng.random() < 0.3, "wrap_gen": rng.random() < 0.4, "rename_after_use": rng.random() < 0.4}


def with_api(g: dict, api: dict | None) -> dict:
    """Copy of a program spec with the API-spelling flags applied at every nesting level."""
    import copy as _copy

    if not api:
        return g
    g2 = _copy.deepcopy(g)
    wrng = random.Random(mix("wrap", shape_of(g)))

    def walk(gr: dict) -> None:
        if api.get("decorators"):
            gr["decorators"] = True
        if api.get("explicit_edges"):
            gr["explicit_edges"] = api["explicit_edges"]  # True, or "split": one declaration per value
        if api.get("siblings"):
            gr["siblings"] = True  # decoy graphs are derived from the same objects (parameter sweeps): they must not influence this one
        for nd in gr["nodes"]:
            if nd["kind"] == "graph":
                walk(nd["graph"])
            elif nd["kind"] == "fn" and api.get("wrap_async") and not nd.get("gen") and wrng.random() < 0.4:
                nd["wrap_async"] = True
            if nd["kind"] == "fn" and api.get("rename_emit") and nd.get("emit"):
                nd["emit_via_rename"] = True
            if nd["kind"] == "fn" and nd.get("gen") and api.get("wrap_gen"):
                nd["gen_wrapped"] = True
            if nd["kind"] == "fn" and nd.get("rename_inputs") and api.get("rename_after_use"):
                nd["rename_after_use"] = True

    walk(g2)
    return g2


def rename_node(g: dict, old: str, new: str) -> None:
    """Rename a node of ONE graph level everywhere that level refers to it (gate targets, decisions, entry points)."""

    def sub(x: Any) -> Any:
        if x == old:
            return new
        if isinstance(x, list):
            return [sub(v) for v in x]
        return x

    for nd in g["nodes"]:
        if nd["name"] == old:
            nd["name"] = new
            if nd["kind"] == "graph":
                nd["graph"]["name"] = new
        for key in ("targets", "when_true", "when_false", "fallback"):
            if key in nd:
                nd[key] = sub(nd[key])
        d = nd.get("decide")
        if d:
            for key in ("choices", "then", "else", "value", "seq"):
                if key in d:
                    d[key] = sub(d[key])
    if g.get("entrypoints"):
        g["entrypoints"] = sub(g["entrypoints"])


def add_substring_names(rng: random.Random, g: dict) -> int:
    """Make one target's name a prefix of a sibling target's name (retry / retry_with_backoff)."""
    n = 0
    for nd in g["nodes"]:
        if nd["kind"] in ("route", "ifelse") and not nd.get("blk"):
            tg = [t for t in gate_targets(nd) if t != "@END"]
            plain = [t for t in tg if not any(x["name"] == t and (x["kind"] != "fn" or x.get("blk")) for x in g["nodes"])]
            if len(plain) >= 2 and rng.random() < 0.5:
                a, b = plain[0], plain[1]
                if not b.startswith(a):
                    rename_node(g, b, a + "_long")
                    n += 1
                    break
    return n


ODD_NAMES = ["select", "max_iterations", "entrypoint", "values", "on_missing", "error_handling", "graph", "map_over", "clone"]


def odd_input_names(rng: random.Random, g: dict, inputs: dict | None = None, k: int = 2) -> dict:
    """Rename some external inputs of a DAG spec to names that look like runner options (legal input names)."""
    import copy as _c

    ext = [e for e in g.get("ext", []) if any(p["name"] == e for nd in g["nodes"] for p in nd.get("params", []))]
    rng.shuffle(ext)
    pool = list(ODD_NAMES)
    rng.shuffle(pool)
    mapping = dict(zip(ext[:k], pool))
    if not mapping:
        return {}
    for nd in g["nodes"]:
        for p in nd.get("params", []):
            if p["name"] in mapping:
                p["name"] = mapping[p["name"]]
        if nd.get("rename_inputs"):
            nd["rename_inputs"] = {mapping.get(a, a): mapping.get(b, b) for a, b in nd["rename_inputs"].items()}
    g["ext"] = [mapping.get(e, e) for e in g["ext"]]
    if inputs is not None:
        for key in ("provide", "bind"):
            if key in inputs:
                inputs[key] = {mapping.get(a, a): v for a, v in inputs[key].items()}
        if "omit" in inputs:
            inputs["omit"] = [mapping.get(a, a) for a in inputs["omit"]]
    return mapping
