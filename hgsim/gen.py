"""Program generators (JSON specs) shared by the checks.

Everything here draws only from the ``random.Random`` it is given and never
iterates a set, so a case is a pure function of its seed under any PYTHONHASHSEED.
"""

from __future__ import annotations

import random
from typing import Any

from .util import mix

DELAY_CHOICES = [
    [0],
    [0, 1],
    [0, 0, 1, 1, 2, 5],
    [1, 2, 3, 4, 5, 6, 7],
    [0, None],
    [None],
    [0, 1, [1, 1], [0, 2], None, 3],
]


def gen_schedule(rng: random.Random, *, allow_hold: bool = True) -> dict:
    """A schedule description: data, not a PRNG side effect."""
    r = rng.random()
    if allow_hold and r < 0.3:
        mode = "hold"
    else:
        mode = "delay"
    sch = {"mode": mode, "seed": rng.randrange(1 << 30), "choices": rng.choice(DELAY_CHOICES), "delays": {}}
    if rng.random() < 0.05:
        sch["clock_jumps"] = {str(rng.randrange(40)): rng.choice([-5000.0, 3600.0, -1.0])}
    return sch


def gen_async_cfg(rng: random.Random, *, allow_hold: bool = True) -> dict:
    return {
        "schedule": gen_schedule(rng, allow_hold=allow_hold),
        "shuffle": rng.randrange(1 << 30) if rng.random() < 0.25 else None,
        "max_concurrency": rng.choice([None, None, 1, 2, 3]),
    }


# --------------------------------------------------------------------- DAGs
def gen_dag(
    rng: random.Random,
    *,
    max_nodes: int = 8,
    max_params: int = 4,
    p_edge_default: float = 0.15,
    p_ext_default: float = 0.4,
    prefix: str = "",
    name: str | None = "top",
    allow_zero_out: bool = True,
) -> dict:
    """Random gate-free DAG.  Nodes consume only earlier outputs (generation order is topological)."""
    n = rng.randint(1, max_nodes)
    ext = [f"{prefix}i{k}" for k in range(rng.randint(1, 4))]
    defaults: dict[str, int] = {e: mix("def", e) % 1000 for e in ext if rng.random() < p_ext_default}
    avail = list(ext)
    nodes: list[dict] = []
    for i in range(n):
        k = rng.randint(0, min(max_params, len(avail)))
        # bias towards recent outputs so that chains and diamonds appear
        if k and rng.random() < 0.6 and len(avail) > len(ext):
            recent = avail[len(ext):][-4:]
            first = rng.choice(recent)
            rest = [a for a in avail if a != first]
            params = [first] + rng.sample(rest, min(k - 1, len(rest)))
        else:
            params = rng.sample(avail, k)
        nout = rng.choice([0, 1, 1, 1, 1, 2, 3]) if allow_zero_out else rng.choice([1, 1, 1, 2, 3])
        outs = [f"{prefix}o{i}_{j}" for j in range(nout)]
        nodes.append({"kind": "fn", "name": f"{prefix}n{i}", "params": [{"name": p} for p in params], "outs": outs})
        avail += outs
    produced = [o for nd in nodes for o in nd["outs"]]
    for p in produced:
        if rng.random() < p_edge_default:
            defaults[p] = mix("def", p) % 1000
    for nd in nodes:
        for p in nd["params"]:
            if p["name"] in defaults:
                p["default"] = defaults[p["name"]]
    order = list(range(n))
    rng.shuffle(order)
    return {"name": name, "nodes": nodes, "order": order, "ext": ext}


def dag_consumed_ext(g: dict) -> list[str]:
    used = []
    for nd in g["nodes"]:
        for p in nd.get("params", []):
            if p["name"] in g["ext"] and p["name"] not in used:
                used.append(p["name"])
    return used


def gen_inputs(rng: random.Random, g: dict, *, p_bind: float = 0.3, p_omit: float = 0.5) -> dict:
    """Values for the external names of a DAG: provide table, bound table, omit list."""
    used = dag_consumed_ext(g)
    provide = {e: mix("p", e) for e in used}
    bind = {e: mix("b", e) for e in used if rng.random() < p_bind}
    omit = [e for e in used if rng.random() < p_omit]
    return {"provide": provide, "bind": bind, "omit": omit}


def eval_dag(g: dict, provided: dict, bound: dict) -> dict[str, Any]:
    """Reference evaluator: dependency order, upstream > run-time > bound > default.

    Returns {"values": {...}, "args": {node: args or None when unrunnable}}.
    """
    vals: dict[str, Any] = {}
    args_of: dict[str, dict | None] = {}
    for nd in g["nodes"]:
        a: dict[str, Any] = {}
        ok = True
        for p in nd.get("params", []):
            pn = p["name"]
            if pn in vals:
                a[pn] = vals[pn]
            elif pn in provided:
                a[pn] = provided[pn]
            elif pn in bound:
                a[pn] = bound[pn]
            elif "default" in p:
                a[pn] = p["default"]
            else:
                ok = False
        if not ok:
            args_of[nd["name"]] = None
            continue
        args_of[nd["name"]] = a
        tag = nd.get("fid", nd["name"])
        from .util import canon

        basis = [(k, canon(v)) for k, v in sorted(a.items())]
        for j, o in enumerate(nd.get("outs", [])):
            vals[o] = mix(tag, j, basis)
    return {"values": vals, "args": args_of}


def shape_of(g: dict) -> str:
    """Structural digest of a program spec (names matter: they are the wiring)."""
    from .util import digest

    def strip(x: Any) -> Any:
        if isinstance(x, dict):
            return {k: strip(v) for k, v in x.items() if k not in ("order",)}
        if isinstance(x, list):
            return [strip(v) for v in x]
        return x

    return digest(strip(g), 8)
