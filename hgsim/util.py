"""Small deterministic helpers shared by the simulator and the checks."""

from __future__ import annotations

import hashlib
import json
import random
from typing import Any


def mix(*parts: Any) -> int:
    """40-bit value that is a deterministic function of its arguments (no hash())."""
    return int(hashlib.blake2b(canon(parts).encode(), digest_size=5).hexdigest(), 16)


def canon(value: Any) -> str:
    """Canonical text for a value made of ints/str/None/bool/list/tuple/dict.

    Objects of any other type are rendered by type name only so that object
    addresses never leak into digests.
    """
    if value is None or isinstance(value, (bool, int, str, float)):
        return repr(value)
    if isinstance(value, (list, tuple)):
        return "[" + ",".join(canon(v) for v in value) + "]"
    if isinstance(value, dict):
        items = sorted(((canon(k), canon(v)) for k, v in value.items()))
        return "{" + ",".join(f"{k}:{v}" for k, v in items) + "}"
    if isinstance(value, (set, frozenset)):
        return "{" + ",".join(sorted(canon(v) for v in value)) + "}"
    if isinstance(value, (Opaque, Versioned, Ambiguous)):
        return f"<{type(value).__name__}:{value.tag}>"
    return f"<{type(value).__name__}>"


class Opaque:
    """A legal but unpicklable, uncopyable value (like a lock, a client object or a lambda). Equal only to itself;
    its tag makes it comparable in canonical form."""

    __slots__ = ("tag",)

    def __init__(self, tag: int) -> None:
        self.tag = tag

    def __reduce_ex__(self, protocol: int) -> Any:
        # what pickling raises for legal values varies: TypeError (locks, generators), ValueError (ctypes pointers),
        # RecursionError (deeply nested structures), RuntimeError (multiprocessing locks/queues), NotImplementedError (pools)
        raise [TypeError, ValueError, RecursionError, RuntimeError, NotImplementedError][self.tag % 5]("cannot pickle 'Opaque' object")

    def __repr__(self) -> str:
        return f"<Opaque:{self.tag}>"


class _NoTruth:
    def __bool__(self) -> bool:
        raise ValueError("The truth value of an elementwise comparison is ambiguous")


class Ambiguous:
    """An array-like value: comparing two of them gives an object that has no truth value (like numpy arrays / pandas frames)."""

    __slots__ = ("tag",)

    def __init__(self, tag: int) -> None:
        self.tag = tag

    def __eq__(self, other: Any) -> Any:  # type: ignore[override]
        return _NoTruth()

    def __ne__(self, other: Any) -> Any:  # type: ignore[override]
        return _NoTruth()

    __hash__ = None  # type: ignore[assignment]

    def __repr__(self) -> str:
        return f"<Ambiguous:{self.tag}>"


GENERATION = [0]  # "version of the program": bumped by a check to model an upgrade between two process lifetimes


def _load_versioned(tag: int, gen: int) -> Any:
    if gen != GENERATION[0]:
        # an AUTHENTIC stored object the current program can no longer load (class changed, __setstate__ version check ...)
        raise [ValueError, AttributeError, KeyError, ImportError][gen % 4](f"stored object of generation {gen} cannot be loaded by generation {GENERATION[0]}")
    return Versioned(tag)


class Versioned:
    """A picklable value whose stored form is tied to the program generation that wrote it."""

    __slots__ = ("tag",)

    def __init__(self, tag: int) -> None:
        self.tag = tag

    def __reduce__(self) -> Any:
        return (_load_versioned, (self.tag, GENERATION[0]))

    def __eq__(self, other: Any) -> bool:
        return isinstance(other, Versioned) and other.tag == self.tag

    def __hash__(self) -> int:
        return self.tag

    def __repr__(self) -> str:
        return f"<Versioned:{self.tag}>"


def digest(value: Any, n: int = 8) -> str:
    return hashlib.blake2b(canon(value).encode(), digest_size=n).hexdigest()


def jdump(obj: Any) -> str:
    return json.dumps(obj, sort_keys=True, separators=(",", ":"), default=_json_default)


def _json_default(o: Any) -> Any:
    if isinstance(o, (set, frozenset)):
        return sorted(o, key=canon)
    if isinstance(o, tuple):
        return list(o)
    return f"<{type(o).__name__}>"


def sub_rng(seed: int, *tags: Any) -> random.Random:
    """Independent PRNG derived from a seed and tags (stable across processes)."""
    return random.Random(mix("rng", seed, *tags))


def jsonable(value: Any) -> Any:
    """Convert to something json.dumps accepts without losing determinism."""
    if value is None or isinstance(value, (bool, int, str, float)):
        return value
    if isinstance(value, (list, tuple)):
        return [jsonable(v) for v in value]
    if isinstance(value, dict):
        return {str(k): jsonable(v) for k, v in value.items()}
    if isinstance(value, (set, frozenset)):
        return sorted((jsonable(v) for v in value), key=canon)
    return f"<{type(value).__name__}>"
