"""Systematic sweep of hold-open release decisions (stateless depth-first search).

In ``hold`` mode every quiescence point is a decision "which parked body finishes
next".  ``sweep`` re-runs a case with longer and longer forced decision prefixes until
every leaf of the decision tree was executed or the cap is reached.  The runs are real
executions inside the simulator; this is a bounded sweep, not a model.
"""

from __future__ import annotations

from collections.abc import Callable
from typing import Any


def sweep(run_with: Callable[[list[int]], Any], cap: int) -> tuple[list[Any], bool]:
    """``run_with(prefix)`` must execute the case with the given forced decisions (all
    later decisions = 0) and return an object with attribute/key ``decision_log``:
    list of (chosen, arity).  Returns (results, exhaustive)."""
    results: list[Any] = []
    stack: list[list[int]] = [[]]
    exhaustive = True
    while stack:
        if len(results) >= cap:
            exhaustive = False
            break
        prefix = stack.pop()
        r = run_with(prefix)
        results.append(r)
        log = r["decision_log"]
        # schedule alternatives for every decision point beyond the forced prefix
        for j in range(len(log) - 1, len(prefix) - 1, -1):
            chosen, arity = log[j]
            for alt in range(arity - 1, 0, -1):
                if alt != chosen:
                    stack.append([c for c, _ in log[:j]] + [alt])
    return results, exhaustive
