"""Self-tests of the simulator: determinism (replayability) and sensitivity (mutants)."""

from __future__ import annotations

import glob
import json
import os
import shutil
import subprocess
import sys
import tempfile
from concurrent.futures import ThreadPoolExecutor

VERIF = os.path.dirname(os.path.dirname(os.path.abspath(__file__)))
PY = sys.executable


def claimed_ids() -> list[str]:
    with open(os.path.join(VERIF, "MANIFEST.json")) as f:
        return [c["property_id"] for c in json.load(f)["checks"]]


def _digests(cid: str, seed: int, n: int, hashseed: str, tier: str = "quick") -> list[str]:
    env = {**os.environ, "PYTHONHASHSEED": hashseed, "HGSIM_KEEP_HASHSEED": "1"}
    p = subprocess.run([PY, os.path.join(VERIF, "check"), cid, "--digests", str(n), "--seed", str(seed), "--tier", tier], capture_output=True, text=True, env=env, timeout=1200)
    if p.returncode != 0:
        return [f"ERROR rc={p.returncode} {p.stdout[-300:]} {p.stderr[-300:]}"]
    return p.stdout.strip().splitlines()


def determinism(seed: int, n: int, ids: list[str] | None = None) -> int:
    """Every case seed is run in 6 fresh interpreters (PYTHONHASHSEED 0,0,1,7,random,random):
    case document digest, history digest and verdict must be identical. The thorough generator
    (larger programs) is checked on a third of the sample as well."""
    ids = ids or claimed_ids()
    bad = 0
    hs_list = ("0", "0", "1", "7", "random", "random")
    m = len(hs_list)
    jobs = [(cid, hs, "quick", n) for cid in ids for hs in hs_list] + [(cid, hs, "thorough", max(3, n // 3)) for cid in ids for hs in hs_list]
    with ThreadPoolExecutor(max_workers=16) as ex:
        outs = list(ex.map(lambda j: _digests(j[0], seed, j[3], j[1], j[2]), jobs))
    half = len(ids) * m
    for k, cid in enumerate(ids):
        a = outs[m * k : m * k + m]
        t = outs[half + m * k : half + m * k + m]
        same = all(x == a[0] for x in a[1:]) and a[0] and not a[0][0].startswith("ERROR")
        same = same and all(x == t[0] for x in t[1:]) and t[0] and not t[0][0].startswith("ERROR")
        print(f"determinism {cid}: {'OK' if same else 'DIFFERENT'} ({len(a[0])} quick + {len(t[0])} thorough-tier cases x {m} interpreters)")
        if not same:
            a = a + t
            bad += 1
            for x in a:
                print("   ", x[:3])
    if bad:
        print(f"HARNESS-ERROR determinism self-test failed for {bad} checks")
        return 2
    print("OK selftest-determinism")
    return 0


def mutants(ids: list[str] | None = None, tier: str = "quick") -> int:
    """Apply each patch under /verif/mutants and /verif/seeded to a scratch copy of /repo/src;
    the quick check of the targeted property must report a VIOLATION."""
    rows = []
    entries = []
    for meta_path in sorted(glob.glob(os.path.join(VERIF, "mutants", "*", "meta.json")) + glob.glob(os.path.join(VERIF, "seeded", "*", "meta.json"))):
        with open(meta_path) as f:
            meta = json.load(f)
        d = os.path.dirname(meta_path)
        entries.append((d, meta))
    def one(entry):
        d, meta = entry
        if meta.get("outside_statement"):
            return (os.path.basename(d), [], "skipped (change does not violate the property as stated)")
        props = meta.get("detected_by") or meta.get("property") or []
        if isinstance(props, str):
            props = [props]
        if ids:
            props = [p for p in props if p in ids]
        if not props:
            return (os.path.basename(d), [], "skipped")
        tmp = tempfile.mkdtemp(prefix="hgmut_", dir="/tmp")
        try:
            shutil.copytree("/repo/src", os.path.join(tmp, "src"))
            p = subprocess.run(["patch", "-p1", "-s", "-d", tmp, "-i", os.path.join(d, "patch.diff")], capture_output=True, text=True)
            if p.returncode != 0:
                return (os.path.basename(d), props, "patch_failed: " + (p.stdout + p.stderr)[-200:])
            res = {}
            for pid in props:
                env = {**os.environ, "HGSIM_SRC": os.path.join(tmp, "src"), "HGSIM_EVIDENCE_DIR": os.path.join(tmp, "evidence"), "HGSIM_REPLAY_DIR": os.path.join(tmp, "replays")}
                q = subprocess.run([PY, os.path.join(VERIF, "check"), pid, "--tier", tier], capture_output=True, text=True, env=env, timeout=3600)
                res[pid] = "VIOLATION" if (q.returncode == 1 and "VIOLATION property=" in q.stdout) else f"missed(rc={q.returncode})"
            return (os.path.basename(d), props, res)
        finally:
            shutil.rmtree(tmp, ignore_errors=True)
    with ThreadPoolExecutor(max_workers=4) as ex:
        rows = list(ex.map(one, entries))
    missed = 0
    for name, props, res in rows:
        print(f"mutant {name}: {res}")
        if isinstance(res, dict) and not any(v == "VIOLATION" for v in res.values()):
            missed += 1
        if isinstance(res, str) and res.startswith("patch_failed"):
            missed += 1
    print(f"selftest-mutants: {len(rows)} mutants, {missed} not detected")
    return 0 if missed == 0 else 1


def main(target: str, seed: int, args) -> int:
    ids = None
    if os.environ.get("HGSIM_IDS"):
        ids = os.environ["HGSIM_IDS"].split(",")
    if target == "selftest-determinism":
        return determinism(seed, args.digests or 60, ids)
    if target == "selftest-mutants":
        return mutants(ids, args.tier)
    print("unknown selftest")
    return 2
