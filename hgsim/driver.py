"""Seeded search over simulated runs: fan-out, evidence, shrinking, replay.

A *check module* provides::

    ID, LEVEL, RULE, ASSUMPTIONS, REAL_VS_STUB
    BUDGET = {"quick": (workers, cases_per_worker, wall_cap_s), "thorough": (...)}
    gen_case(rng, tier) -> doc            # JSON-able; running it is a pure function of doc + /repo
    run_case(doc) -> CaseResult dict      # see ``empty_result``
    shrink_candidates(doc) -> iterable of smaller docs      (optional)
    signature(doc, cls, detail) -> str    # structural signature for known-findings matching (optional)

Exit codes: 0 held; 1 VIOLATION; 2 HARNESS-ERROR.
"""

from __future__ import annotations

import copy
import faulthandler
import json
import multiprocessing
import os
import random
import subprocess
import sys
import time
import traceback
from concurrent.futures import ProcessPoolExecutor
from typing import Any

from .util import digest, jdump, jsonable, mix

VERIF = os.path.dirname(os.path.dirname(os.path.abspath(__file__)))
PY = sys.executable


def empty_result() -> dict:
    return {
        "violations": [],  # list of (class, detail)
        "discard": None,  # reason string when the case is not judged
        "nontrivial": False,
        "sig": "",  # digest of (program shape, schedule signature, fault signature)
        "stats": {},  # counters (faults fired, probes, ...)
        "runs": 0,  # simulated top-level runs
        "sim_time": 0.0,
        "steps": 0,
        "hdigest": "",  # digest of the recorded histories
        "shape": "",
        "sched": "",
    }


def add_stats(dst: dict, src: dict) -> None:
    for k, v in src.items():
        dst[k] = dst.get(k, 0) + v


# ------------------------------------------------------------------ worker
def _worker(args: tuple) -> dict:
    mod_name, seed, tier, wid, count, wall_cap, extra = args
    faulthandler.enable()
    per_case_watchdog = max(wall_cap * 3, 600)  # a hung case is killed; re-armed for every case so that a slow machine does not kill healthy workers
    faulthandler.dump_traceback_later(per_case_watchdog, exit=True)
    import importlib
    import logging
    import warnings

    logging.disable(logging.CRITICAL)
    warnings.simplefilter("ignore")
    mod = importlib.import_module(mod_name)
    known_sigs = {f["signature"] for f in load_known().get("findings", []) if f.get("property") == mod.ID}
    sig_fn = getattr(mod, "signature", None)
    agg: dict[str, Any] = {
        "known": {},
        "wid": wid,
        "evaluations": 0,
        "discards": {},
        "nontrivial": 0,
        "sigs": set(),
        "shapes": set(),
        "scheds": set(),
        "stats": {},
        "runs": 0,
        "sim_time": 0.0,
        "steps": 0,
        "violation": None,
        "n_violating": 0,
        "harness_error": None,
        "samples": [],
        "wall": 0.0,
        "capped": False,
    }
    t0 = time.time()
    for j in range(count):
        if time.time() - t0 > wall_cap:
            agg["capped"] = True
            break
        case_seed = mix("case", seed, wid, j)
        faulthandler.cancel_dump_traceback_later()
        faulthandler.dump_traceback_later(per_case_watchdog, exit=True)
        try:
            rng = random.Random(case_seed)
            doc = mod.gen_case(rng, tier)
            doc["_seed"] = case_seed
            if extra:
                doc.update(extra)
            res = mod.run_case(doc)
        except BaseException as e:  # noqa: BLE001 - generator/model/checker bug
            agg["harness_error"] = {
                "case_seed": case_seed,
                "error": f"{type(e).__name__}: {e}",
                "trace": traceback.format_exc()[-3000:],
            }
            break
        agg["evaluations"] += 1
        agg["runs"] += res["runs"]
        agg["sim_time"] += res["sim_time"]
        agg["steps"] += res["steps"]
        add_stats(agg["stats"], res["stats"])
        if res["discard"]:
            agg["discards"][res["discard"]] = agg["discards"].get(res["discard"], 0) + 1
            continue
        if res["shape"]:
            agg["shapes"].add(res["shape"])
        if res["sched"]:
            agg["scheds"].add(res["sched"])
        if res["nontrivial"]:
            agg["nontrivial"] += 1
            agg["sigs"].add(res["sig"])
            if len(agg["samples"]) < 2:
                agg["samples"].append(_sample(mod, doc, res))
        fresh = []
        for cls, detail in res["violations"]:
            sg = sig_fn(doc, cls, detail) if sig_fn else cls
            if sg in known_sigs:
                agg["known"][sg] = agg["known"].get(sg, 0) + 1
            else:
                fresh.append((cls, detail))
        if fresh:
            agg["n_violating"] += 1
            if agg["violation"] is None:
                cls, detail = fresh[0]
                agg["violation"] = {"doc": doc, "class": cls, "detail": jsonable(detail), "index": j, "hdigest": res["hdigest"]}
                if tier == "quick":
                    break
    agg["wall"] = time.time() - t0
    faulthandler.cancel_dump_traceback_later()
    return agg


def _sample(mod: Any, doc: dict, res: dict) -> Any:
    f = getattr(mod, "sample_repr", None)
    if f is not None:
        return f(doc, res)
    d = {k: v for k, v in doc.items() if not k.startswith("_")}
    return json.loads(jdump(d))


# ------------------------------------------------------------------ shrink
def _has_class(mod: Any, doc: dict, cls: str) -> tuple[bool, dict | None]:
    try:
        res = mod.run_case(doc)
    except BaseException:  # noqa: BLE001 - a candidate that breaks the harness is simply rejected
        return False, None
    for c, d in res["violations"]:
        if c == cls:
            return True, {"detail": d, "hdigest": res["hdigest"]}
    return False, None


def generic_candidates(doc: dict):
    """Property-agnostic reductions: drop faults, zero delays, drop list elements."""
    # 1. drop each fault
    for path in (("faults",), ("cache_faults",), ("ops",), ("runs",)):
        lst = _get(doc, path)
        if isinstance(lst, list) and lst:
            for i in range(len(lst)):
                c = copy.deepcopy(doc)
                del _get(c, path)[i]
                yield c
    # 2. simplify the schedule
    sch = doc.get("schedule")
    if isinstance(sch, dict):
        if sch.get("delays"):
            c = copy.deepcopy(doc)
            c["schedule"]["delays"] = {}
            yield c
            for k in list(sch["delays"]):
                c = copy.deepcopy(doc)
                del c["schedule"]["delays"][k]
                yield c
        if sch.get("choices") and sch["choices"] != [0]:
            c = copy.deepcopy(doc)
            c["schedule"]["choices"] = [0]
            yield c
        if sch.get("clock_jumps"):
            c = copy.deepcopy(doc)
            c["schedule"]["clock_jumps"] = {}
            yield c
    if doc.get("shuffle") is not None:
        c = copy.deepcopy(doc)
        c["shuffle"] = None
        yield c


def _get(doc: Any, path: tuple) -> Any:
    cur = doc
    for p in path:
        if not isinstance(cur, dict) or p not in cur:
            return None
        cur = cur[p]
    return cur


def shrink(mod: Any, doc: dict, cls: str, *, wall: float = 60.0, max_tries: int = 600) -> tuple[dict, int]:
    t0 = time.time()
    tries = 0
    cur = doc
    improved = True
    cand_fn = getattr(mod, "shrink_candidates", None)
    while improved and time.time() - t0 < wall and tries < max_tries:
        improved = False
        gens = []
        if cand_fn is not None:
            gens.append(cand_fn(cur))
        gens.append(generic_candidates(cur))
        for g in gens:
            for cand in g:
                if time.time() - t0 > wall or tries >= max_tries:
                    break
                tries += 1
                ok, _ = _has_class(mod, cand, cls)
                if ok and len(jdump(cand)) < len(jdump(cur)):
                    cur = cand
                    improved = True
                    break
            if improved:
                break
    return cur, tries


# -------------------------------------------------------------- known finds
def load_known() -> dict:
    p = os.path.join(VERIF, "known_findings.json")
    try:
        with open(p) as f:
            return json.load(f)
    except FileNotFoundError:
        return {"findings": [], "fixed": []}


def match_known(prop: str, sig: str) -> dict | None:
    for f in load_known().get("findings", []):
        if f.get("property") == prop and f.get("signature") == sig:
            return f
    return None


# ------------------------------------------------------------------- batch
def run_check(mod: Any, tier: str, seed: int, *, workers: int | None = None, count: int | None = None, wall_cap: float | None = None, extra: dict | None = None) -> int:
    t0 = time.time()
    w, c, cap = mod.BUDGET[tier]
    scale = float(os.environ.get("VERIF_SCALE", "1"))
    workers = workers or w
    count = count or max(1, int(c * scale))
    wall_cap = wall_cap or cap
    jobs = [(mod.__name__, seed, tier, i, count, wall_cap, extra) for i in range(workers)]
    aggs: list[dict] = []
    harness_error = None
    ctx = multiprocessing.get_context("fork")
    try:
        if workers == 1:
            aggs = [_worker(jobs[0])]
        else:
            with ProcessPoolExecutor(max_workers=workers, mp_context=ctx) as ex:
                futs = [ex.submit(_worker, j) for j in jobs]
                for f in futs:
                    aggs.append(f.result(timeout=wall_cap * 4 + 300))
    except BaseException as e:  # noqa: BLE001 - dead worker / timeout
        harness_error = {"error": f"worker failure: {type(e).__name__}: {e}", "trace": traceback.format_exc()[-2000:]}
    for a in aggs:
        if a.get("harness_error") and harness_error is None:
            harness_error = a["harness_error"]

    total: dict[str, Any] = {"evaluations": 0, "nontrivial": 0, "runs": 0, "sim_time": 0.0, "steps": 0, "stats": {}, "discards": {}, "n_violating": 0}
    sigs: set = set()
    shapes: set = set()
    scheds: set = set()
    samples: list = []
    capped = 0
    for a in aggs:
        for k in ("evaluations", "nontrivial", "runs", "sim_time", "steps", "n_violating"):
            total[k] += a[k]
        add_stats(total["stats"], a["stats"])
        add_stats(total["discards"], a["discards"])
        sigs |= a["sigs"]
        shapes |= a["shapes"]
        scheds |= a["scheds"]
        samples.extend(a["samples"])
        capped += 1 if a["capped"] else 0

    violations_out: list[dict] = []
    known_lines: list[str] = []
    known_seen: dict[str, int] = {}
    for a in aggs:
        add_stats(known_seen, a.get("known", {}))
    for f in load_known().get("findings", []):
        if f.get("property") != mod.ID:
            continue
        # re-run the recorded minimal case: the finding is reported only while it still fails
        still = False
        fdoc = f.get("doc")
        if fdoc is not None:
            try:
                fres = mod.run_case(fdoc)
                sig_fn0 = getattr(mod, "signature", None)
                still = any((sig_fn0(fdoc, c, d) if sig_fn0 else c) == f["signature"] for c, d in fres["violations"])
            except BaseException:  # noqa: BLE001
                still = False
        n_seen = known_seen.get(f["signature"], 0)
        if still or n_seen:
            known_lines.append(f"KNOWN-FINDING: property={mod.ID} {f.get('what', f['signature'])} [signature={f['signature']} recorded_case_still_fails={still} seen_in_this_run={n_seen}]")
        else:
            print(f"NOTE property={mod.ID} listed finding {f['signature']} did not reproduce in this run (recorded case passes)")
    viols = sorted((a for a in aggs if a["violation"] is not None), key=lambda a: (a["wid"], a["violation"]["index"]))
    seen_sigs: set = set()
    shrink_budget = 45.0 if tier == "quick" else 120.0
    for a in viols[:6]:
        v = a["violation"]
        start_doc = v["doc"]
        narrow = getattr(mod, "narrow", None)
        if narrow is not None:
            nd = narrow(start_doc, v["class"], v["detail"])
            if nd is not None and _has_class(mod, nd, v["class"])[0]:
                start_doc = nd
        small, tries = shrink(mod, start_doc, v["class"], wall=shrink_budget)
        ok, info = _has_class(mod, small, v["class"])
        if not ok:
            small, info = v["doc"], {"detail": v["detail"], "hdigest": v["hdigest"]}
        sig_fn = getattr(mod, "signature", None)
        sig = sig_fn(small, v["class"], info["detail"]) if sig_fn else v["class"]
        if sig in seen_sigs:
            continue
        seen_sigs.add(sig)
        rp = write_replay(mod, small, v["class"], info, seed, tries, sig)
        confirmed = confirm_replay(mod, rp)
        kf = match_known(mod.ID, sig)
        if kf is not None:
            if not any(f"signature={sig} " in ln for ln in known_lines):
                known_lines.append(f"KNOWN-FINDING: property={mod.ID} {kf.get('what', sig)} [signature={sig} seen_after_shrinking]")
            continue
        violations_out.append({"class": v["class"], "replay": rp, "confirmed": confirmed, "signature": sig, "detail": jsonable(info["detail"])})

    wall = time.time() - t0
    write_evidence(mod, tier, seed, total, sigs, shapes, scheds, samples, wall, violations_out, known_lines, harness_error, capped, workers)

    for line in known_lines:
        print(line)
    if harness_error is not None:
        print(f"HARNESS-ERROR property={mod.ID} {harness_error['error']}")
        print(harness_error.get("trace", ""))
        return 2
    if violations_out:
        for v in violations_out:
            print(f"VIOLATION property={mod.ID} replay={v['replay']}")
            print(f"  class={v['class']} signature={v['signature']} replay_confirmed={v['confirmed']}")
            print(f"  detail={jdump(v['detail'])[:600]}")
        return 1
    print(
        f"OK property={mod.ID} tier={tier} seed={seed} evaluations={total['evaluations']} "
        f"distinct_nontrivial={len(sigs)} runs={total['runs']} wall={wall:.1f}s"
    )
    return 0


def write_replay(mod: Any, doc: dict, cls: str, info: dict, seed: int, tries: int, sig: str) -> str:
    d = os.environ.get("HGSIM_REPLAY_DIR") or os.path.join(VERIF, "replays")
    os.makedirs(d, exist_ok=True)
    body = {
        "property": mod.ID,
        "class": cls,
        "signature": sig,
        "seed": seed,
        "case_seed": doc.get("_seed"),
        "shrink_tries": tries,
        "hdigest": info["hdigest"],
        "detail": jsonable(info["detail"]),
        "doc": doc,
    }
    name = f"{mod.ID}-{seed}-{digest(doc, 5)}.json"
    path = os.path.join(d, name)
    with open(path, "w") as f:
        json.dump(body, f, indent=1, sort_keys=True, default=str)
    return path


def confirm_replay(mod: Any, path: str) -> bool:
    """Replay in a fresh interpreter; must reproduce class and history digest."""
    try:
        p = subprocess.run(
            [PY, os.path.join(VERIF, "check"), mod.ID, "--replay", path],
            capture_output=True,
            text=True,
            timeout=180,
            env={**os.environ, "PYTHONHASHSEED": "0"},
        )
    except subprocess.TimeoutExpired:
        return False
    return p.returncode == 1 and "REPRODUCED" in p.stdout


def replay(mod: Any, path: str) -> int:
    with open(path) as f:
        body = json.load(f)
    res = mod.run_case(body["doc"])
    classes = [c for c, _ in res["violations"]]
    if body["class"] in classes:
        same = res["hdigest"] == body.get("hdigest")
        print(f"REPRODUCED property={mod.ID} class={body['class']} history_digest_equal={same}")
        print(f"VIOLATION property={mod.ID} replay={path}")
        for c, d in res["violations"][:3]:
            print(f"  class={c} detail={jdump(jsonable(d))[:800]}")
        return 1
    print(f"NOT-REPRODUCED property={mod.ID} class={body['class']} got={classes}")
    return 0


def write_evidence(mod, tier, seed, total, sigs, shapes, scheds, samples, wall, violations_out, known_lines, harness_error, capped, workers) -> None:
    d = os.environ.get("HGSIM_EVIDENCE_DIR") or os.path.join(VERIF, "evidence")
    os.makedirs(d, exist_ok=True)
    ev = total["evaluations"]
    hours = max(wall, 1e-9) / 3600.0
    cov = {
        "evaluations": ev,
        "distinct_nontrivial": len(sigs),
        "rule": mod.RULE,
        "samples": samples[:3] if samples else [{"note": "no non-trivial case in this run"}],
        "nontrivial_cases": total["nontrivial"],
        "simulated_runs": total["runs"],
        "simulated_runs_per_hour": int(total["runs"] / hours),
        "cases_per_hour": int(ev / hours),
        "seeds_per_hour": int(ev / hours),
        "seed_derivation": "case_seed = blake2(('case', VERIF_SEED, worker, index)); one case seed = one exactly repeatable execution",
        "simulated_time_s": round(total["sim_time"], 3),
        "loop_steps": total["steps"],
        "distinct_program_shapes": len(shapes),
        "distinct_schedule_signatures": len(scheds),
        "fault_and_probe_counters": dict(sorted(total["stats"].items())),
        "discarded_cases": total["discards"],
        "workers": workers,
        "workers_stopped_by_wall_cap": capped,
        "real_vs_stub": getattr(mod, "REAL_VS_STUB", REAL_VS_STUB),
        "known_findings_reported": known_lines,
        "exhaustive": False,
    }
    extra = getattr(mod, "evidence_extra", None)
    if extra is not None:
        cov.update(extra(total))
    if harness_error is not None:
        cov["harness_error"] = harness_error["error"]
    if violations_out:
        cov["violations_detail"] = violations_out
    doc = {
        "property_id": mod.ID,
        "tier": tier,
        "seed": seed,
        "level": mod.LEVEL,
        "coverage": cov,
        "assumptions": list(getattr(mod, "ASSUMPTIONS", [])),
        "wall_s": round(wall, 2),
        "violations": len(violations_out),
    }
    with open(os.path.join(d, f"{mod.ID}.json"), "w") as f:
        json.dump(doc, f, indent=1, sort_keys=True, default=str)


REAL_VS_STUB = {
    "real": [
        "all of hypergraph.* (graph construction, validation, SyncRunner, AsyncRunner, templates, executors, dispatcher, caching glue, InMemoryCache, DiskCache)",
        "networkx",
        "asyncio Task/Future/gather/Semaphore/Queue/Event",
        "pickle, hmac",
    ],
    "stub": [
        "asyncio event loop selector/clock (SimLoop: virtual time, seeded scheduling)",
        "uuid.uuid4 (counter)",
        "time.time inside hypergraph modules (virtual clock)",
        "node function bodies, gate decision functions, interrupt handlers (generated)",
        "event processors (harness recorders / failing processors)",
    ],
}


def digests(mod: Any, seed: int, tier: str, n: int) -> list[str]:
    out = []
    for j in range(n):
        case_seed = mix("case", seed, 0, j)
        doc = mod.gen_case(random.Random(case_seed), tier)
        doc["_seed"] = case_seed
        res = mod.run_case(doc)
        out.append(f"{case_seed} {digest(doc, 6)} {res['hdigest']} {len(res['violations'])}")
    return out
