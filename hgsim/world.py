"""Running top-level calls of the system under test inside the simulator.

* ``TracedSyncRunner`` / ``TracedAsyncRunner``: the real runners with the public
  ``run`` overridden only to push a run label around ``super().run``.
* ``patched(rt)``: context manager installing the seams (virtual ``time.time`` in
  every hypergraph module that imported ``time``, counter ``uuid.uuid4``, recording
  taps on the superstep functions).
* ``call_sync`` / ``call_async``: execute one top-level call and turn whatever
  happens into an *outcome* (exceptions of the system under test are outcomes).
"""

from __future__ import annotations

import contextlib
import sys
import time as _real_time
import types
import uuid as _uuid
import warnings
from typing import Any

from hypergraph import AsyncRunner, SyncRunner
from hypergraph.runners._shared.types import RunResult, RunStatus

from . import rt as _rt
from .loop import run_sim
from .rt import InjectedFault, Runtime
from .util import canon


class TracedSyncRunner(SyncRunner):
    _hg_rt: Runtime | None = None

    def run(self, graph, values=None, **kw):  # type: ignore[override]
        rt = self._hg_rt
        if rt is None:
            return super().run(graph, values, **kw)
        tok = rt.push_run(getattr(graph, "name", None), _label_values(values, kw))
        try:
            return super().run(graph, values, **kw)
        finally:
            rt.pop_run(tok)


class TracedAsyncRunner(AsyncRunner):
    _hg_rt: Runtime | None = None

    async def run(self, graph, values=None, **kw):  # type: ignore[override]
        rt = self._hg_rt
        if rt is None:
            return await super().run(graph, values, **kw)
        tok = rt.push_run(getattr(graph, "name", None), _label_values(values, kw))
        try:
            return await super().run(graph, values, **kw)
        finally:
            rt.pop_run(tok)


_OPTION_NAMES = {
    "select",
    "on_missing",
    "on_internal_override",
    "entrypoint",
    "max_iterations",
    "max_concurrency",
    "error_handling",
    "event_processors",
    "_parent_span_id",
}


def _label_values(values: Any, kw: dict) -> Any:
    d = dict(values) if isinstance(values, dict) else {}
    for k, v in kw.items():
        if k not in _OPTION_NAMES:
            d[k] = v
    return d


def make_runner(kind: str, rt: Runtime, cache: Any = None) -> Any:
    r = TracedSyncRunner(cache=cache) if kind == "sync" else TracedAsyncRunner(cache=cache)
    r._hg_rt = rt
    return r


# ------------------------------------------------------------------- seams
class _TimeShim(types.ModuleType):
    def __init__(self, rt: Runtime) -> None:
        super().__init__("time")
        self._rt = rt

    def time(self) -> float:
        rt = self._rt
        rt.vclock += 1e-6
        jumps = rt.schedule.get("clock_jumps")
        if jumps:
            n = rt.probes.get("time_reads", 0)
            rt.probes["time_reads"] = n + 1
            j = jumps.get(str(n))
            if j is not None:
                rt.probe("clock_jump")
                return 1_000_000.0 + rt.now() + j
        return 1_000_000.0 + rt.now()

    def __getattr__(self, name: str) -> Any:
        return getattr(_real_time, name)


def _hg_modules() -> list[Any]:
    return [m for n, m in list(sys.modules.items()) if n.startswith("hypergraph") and m is not None]


@contextlib.contextmanager
def patched(rt: Runtime, *, taps: bool = True):
    """Install the seams for the duration of one simulated world."""
    undo: list[tuple[Any, str, Any]] = []
    shim = _TimeShim(rt)
    for m in _hg_modules():
        if getattr(m, "time", None) is _real_time:
            undo.append((m, "time", m.time))
            m.time = shim
    counter = [0]

    def uuid4() -> Any:
        counter[0] += 1
        return _uuid.UUID(int=(counter[0] << 80) | 0x5151)

    undo.append((_uuid, "uuid4", _uuid.uuid4))
    _uuid.uuid4 = uuid4
    rt.tap_active = False
    if taps:
        try:
            import hypergraph.runners.async_.runner as ar
            import hypergraph.runners.sync.runner as sr

            s_orig = getattr(sr, "run_superstep_sync", None)
            a_orig = getattr(ar, "run_superstep_async", None)
            if s_orig is not None and a_orig is not None:

                def s_tap(*a: Any, **k: Any) -> Any:
                    lid = rt.current_label_id()
                    ready = _ready_names(a, k)
                    rt.log("step_begin", r=lid, ready=ready)
                    ok, vals = False, None
                    try:
                        st = s_orig(*a, **k)
                        ok, vals = True, _state_values(st)
                        return st
                    finally:
                        rec = rt.log("step_end", r=lid, ok=ok)
                        rec["vals"] = vals

                async def a_tap(*a: Any, **k: Any) -> Any:
                    lid = rt.current_label_id()
                    ready = _ready_names(a, k)
                    rt.log("step_begin", r=lid, ready=ready)
                    ok, vals = False, None
                    try:
                        st = await a_orig(*a, **k)
                        ok, vals = True, _state_values(st)
                        return st
                    finally:
                        rec = rt.log("step_end", r=lid, ok=ok)
                        rec["vals"] = vals

                undo.append((sr, "run_superstep_sync", s_orig))
                undo.append((ar, "run_superstep_async", a_orig))
                sr.run_superstep_sync = s_tap
                ar.run_superstep_async = a_tap
                rt.tap_active = True
        except Exception:  # noqa: BLE001 - seam missing: step-level checks fall back
            rt.tap_active = False
    try:
        yield
    finally:
        for obj, name, val in reversed(undo):
            setattr(obj, name, val)


def _state_values(st: Any) -> dict | None:
    v = getattr(st, "values", None)
    return dict(v) if isinstance(v, dict) else None


def _ready_names(a: tuple, k: dict) -> list[str]:
    ready = k.get("ready_nodes")
    if ready is None and len(a) >= 3:
        ready = a[2]
    try:
        return [n.name for n in ready]
    except Exception:  # noqa: BLE001
        return []


# ---------------------------------------------------------------- outcomes
def err_desc(e: BaseException | None) -> Any:
    if e is None:
        return None
    if getattr(e, "hg_injected", False):
        return ["injected", e.fid]
    return [type(e).__name__, canon(getattr(e, "args", ()))[:200]]


def outcome_of_result(res: Any) -> dict:
    if isinstance(res, RunResult):
        out = {
            "status": res.status.value,
            "values": res.values,
            "error": err_desc(res.error),
            "err_obj": res.error,
            "pause": None,
            "result": res,
        }
        if res.pause is not None:
            p = res.pause
            out["pause"] = {
                "node_name": p.node_name,
                "output_param": p.output_param,
                "value": p.value,
                "output_params": list(p.output_params) if p.output_params else None,
                "values": p.values,
                "response_key": p.response_key,
                "response_keys": p.response_keys,
            }
        return out
    if isinstance(res, list):
        return {"status": "list", "items": [outcome_of_result(r) for r in res], "result": res, "values": None, "error": None, "err_obj": None}
    return {"status": "other", "values": None, "error": None, "err_obj": None, "result": res}


def outcome_of_exc(e: BaseException) -> dict:
    return {"status": "raised", "values": None, "error": err_desc(e), "err_obj": e, "pause": None, "result": None}


def call_sync(rt: Runtime, fn: Any, *, call_id: str = "c0") -> dict:
    tok = _rt._CALL.set(call_id)
    rt.log("call_begin", c=call_id, mode="sync")
    caught: list[Any] = []
    try:
        with warnings.catch_warnings(record=True) as wlist:
            warnings.simplefilter("always")
            if getattr(rt, "runtime_warnings_are_errors", False):
                warnings.filterwarnings("error", category=RuntimeWarning)  # the interpreter configuration numeric code / strict test suites use
            try:
                out = outcome_of_result(fn())
            except Exception as e:  # noqa: BLE001 - outcome of the system under test
                out = outcome_of_exc(e)
        caught = [(w.category.__name__, str(w.message)[:160]) for w in wlist]
    finally:
        _rt._CALL.reset(tok)
    out["warnings"] = caught
    rt.log("call_end", c=call_id, status=out["status"])
    return out


def call_async(
    rt: Runtime,
    coro_factories: Any,
    *,
    shuffle_seed: int | None = None,
    step_cap: int = 200_000,
    call_ids: list[str] | None = None,
    limits: list[int | None] | None = None,
) -> list[dict]:
    """Run one or several concurrent top-level async calls on one SimLoop.

    ``coro_factories``: list of zero-argument callables returning the coroutine of
    a top-level call.  Returns one outcome per call (in the given order).
    """
    import asyncio

    n = len(coro_factories)
    ids = call_ids or [f"c{i}" for i in range(n)]
    outs: list[dict | None] = [None] * n
    hold = rt.schedule.get("mode") == "hold"

    async def one(i: int) -> None:
        tok = _rt._CALL.set(ids[i])
        if limits:
            rt.limit[ids[i]] = limits[i]
        rt.log("call_begin", c=ids[i], mode="async")
        try:
            try:
                res = await coro_factories[i]()
                outs[i] = outcome_of_result(res)
            except asyncio.CancelledError:
                raise
            except Exception as e:  # noqa: BLE001
                outs[i] = outcome_of_exc(e)
        finally:
            _rt._CALL.reset(tok)
        rt.log("call_end", c=ids[i], status=outs[i]["status"] if outs[i] else "?")

    async def main() -> None:
        rt.loop = asyncio.get_event_loop()
        if n == 1:
            await one(0)
        else:
            await asyncio.gather(*[asyncio.ensure_future(one(i)) for i in range(n)])

    hook = rt.release_one if hold else None
    with warnings.catch_warnings(record=True) as wlist:
        warnings.simplefilter("always")
        if getattr(rt, "runtime_warnings_are_errors", False):
            warnings.filterwarnings("error", category=RuntimeWarning)
        sim = run_sim(main, shuffle_seed=shuffle_seed, step_cap=step_cap, on_quiescent=hook, on_drain=hook)
    rt.loop = None
    rt.vclock = max(rt.vclock, sim.get("t_end", 0.0))
    caught = [(w.category.__name__, str(w.message)[:160]) for w in wlist]
    results: list[dict] = []
    for i in range(n):
        o = outs[i]
        if o is None:
            if sim["sim_error"]:
                o = {"status": sim["sim_error"], "values": None, "error": None, "err_obj": None, "pause": None, "result": None}
            elif sim["exc"] is not None:
                o = outcome_of_exc(sim["exc"])
            else:
                o = {"status": "no_outcome", "values": None, "error": None, "err_obj": None, "pause": None, "result": None}
        o["sim"] = {k: sim.get(k) for k in ("steps", "t_end", "t_main", "orphans", "sim_error", "clock_jumps", "max_ready", "shuffled_picks")}
        o["warnings"] = caught
        results.append(o)
    rt.log("sim_end", steps=sim.get("steps"), orphans=sim.get("orphans"), sim_error=sim.get("sim_error"))
    return results
