"""File-defined factory functions (their source text is available to inspect.getsource).

Nodes built from ``make_unary(key)`` with different keys share their source text and differ only in
the captured variable - the usual factory pattern.  The runtime is looked up through a module global
so that nothing world-specific is captured in the closure.
"""

CURRENT = None  # the Runtime of the world being simulated (set by the spec compiler)


def make_unary(key):
    def f(a):
        return CURRENT.body(key, {"a": a})

    return f


def make_unary_async(key):
    async def f(a):
        return await CURRENT.abody(key, {"a": a})

    return f


def make_salted(base, salt):
    """Two captured variables; siblings may capture values of different TYPE that print alike (1 vs "1")."""

    def f(a):
        return CURRENT.body(base + ":" + repr(salt), {"a": a})

    return f


def make_salted_async(base, salt):
    async def f(a):
        return await CURRENT.abody(base + ":" + repr(salt), {"a": a})

    return f
