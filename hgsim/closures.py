"""File-defined factory functions (their source text is available to inspect.getsource).

Nodes built from ``make_unary(key)`` with different keys share their source text and differ only in
the captured variable - the usual factory pattern.  The runtime is looked up through a module global
so that nothing world-specific is captured in the closure.
"""

CURRENT = None  # the Runtime of the world being simulated (set by the spec compiler)


def make_unary(key):
    def f(a):
        return CURRENT.body(key, {"a": a})

    return f


def make_unary_async(key):
    async def f(a):
        return await CURRENT.abody(key, {"a": a})

    return f


def make_salted(base, salt):
    """Two captured variables; siblings may capture values of different TYPE that print alike (1 vs "1")."""

    def f(a):
        return CURRENT.body(base + ":" + repr(salt), {"a": a})

    return f


def make_salted_async(base, salt):
    async def f(a):
        return await CURRENT.abody(base + ":" + repr(salt), {"a": a})

    return f


# two lambdas written on ONE source line: inspect.getsource returns the whole line for either of them
LAM = {"A": None, "B": None}
LAM["A"], LAM["B"] = (lambda a: CURRENT.body("ckA", {"a": a})), (lambda a: CURRENT.body("ckB", {"a": a}))


class Keyed:
    """Bound methods of different instances share their source text and have no closure: the instance is the captured state."""

    def __init__(self, key):
        self.key = key

    def apply(self, a):
        return CURRENT.body(self.key, {"a": a})


def make_method(which):
    return Keyed("ck" + which).apply


def _current():
    return CURRENT


def make_by_global_name(which):
    """exec-built functions (no source available) that differ only in the NAME of a global they read."""
    ns = {"_current": _current, "KEY_A": "ckA", "KEY_B": "ckB"}
    exec(f"def f(a):\n    return _current().body(KEY_{which}, {{'a': a}})\n", ns)
    return ns["f"]
