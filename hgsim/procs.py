"""Harness event processors: recorders and failing processors, and event canonicalisation."""

from __future__ import annotations

import asyncio
from typing import Any

from hypergraph.events import types as T
from hypergraph.events.processor import AsyncEventProcessor, EventProcessor

from .util import mix


class ProcFault(Exception):
    pass


def ev_kind(e: Any) -> str:
    return type(e).__name__.replace("Event", "")


class _Base:
    def _init(self, rt: Any, name: str, fail_at: Any, yield_seed: int | None, fail_phase: str) -> None:
        self.rt = rt
        self.name = name
        self.events: list[Any] = []
        self.n = 0
        self.shutdowns = 0
        self.fail_at = fail_at  # None | int | "all" | "shutdown"
        self.yield_seed = yield_seed
        self.fail_phase = fail_phase  # "before" | "after" the internal yield (async only)
        self.fired = 0
        self.after_shutdown = 0

    def _should_fail(self, k: int) -> bool:
        return self.fail_at == "all" or self.fail_at == k

    def _record(self, e: Any) -> None:
        if self.shutdowns:
            self.after_shutdown += 1
        self.events.append(e)
        self.rt.log("event", proc=self.name, ev=ev_kind(e), n=getattr(e, "node_name", None), g=getattr(e, "graph_name", None))

    def _fail(self, where: str) -> None:
        self.fired += 1
        self.rt.log("proc_raise", proc=self.name, at=where)
        self.rt.probe("processor_raise_" + ("shutdown" if where == "shutdown" else "event"))
        raise ProcFault(f"{self.name} fails at {where}")


class SyncProc(_Base, EventProcessor):
    def __init__(self, rt: Any, name: str, fail_at: Any = None) -> None:
        self._init(rt, name, fail_at, None, "before")

    def on_event(self, event: Any) -> None:
        k = self.n
        self.n += 1
        if self._should_fail(k):
            self._fail(f"event {k}")
        self._record(event)

    def shutdown(self) -> None:
        self.shutdowns += 1
        self.rt.log("shutdown", proc=self.name)
        if self.fail_at == "shutdown":
            self._fail("shutdown")


class AsyncProc(_Base, AsyncEventProcessor):
    def __init__(self, rt: Any, name: str, fail_at: Any = None, yield_seed: int | None = None, fail_phase: str = "before") -> None:
        self._init(rt, name, fail_at, yield_seed, fail_phase)

    def _delay(self, k: int) -> Any:
        if self.yield_seed is None:
            return None
        return [None, None, 0, 0, 1, 3][mix("py", self.yield_seed, self.name, k) % 6]

    async def on_event_async(self, event: Any) -> None:
        k = self.n
        self.n += 1
        fail = self._should_fail(k)
        if fail and self.fail_phase == "before":
            self._fail(f"event {k}")
        d = self._delay(k)
        if fail and d is None:
            d = 0
        if d is not None:
            self.rt.probe("processor_delay")
            await asyncio.sleep(d)
        if fail:
            self._fail(f"event {k} (after yield)")
        self._record(event)

    def on_event(self, event: Any) -> None:  # used by the sync runner
        k = self.n
        self.n += 1
        if self._should_fail(k):
            self._fail(f"event {k}")
        self._record(event)

    async def shutdown_async(self) -> None:
        self.shutdowns += 1
        self.rt.log("shutdown", proc=self.name)
        if self.yield_seed is not None:
            await asyncio.sleep(0)
        if self.fail_at == "shutdown":
            self._fail("shutdown")

    def shutdown(self) -> None:
        self.shutdowns += 1
        self.rt.log("shutdown", proc=self.name)
        if self.fail_at == "shutdown":
            self._fail("shutdown")


# --------------------------------------------------------------- canonical
def canon_events(events: list[Any]) -> list[tuple]:
    """Sequence with span/run ids replaced by first-appearance indices."""
    ids: dict[str, int] = {}

    def ix(s: Any) -> Any:
        if s is None:
            return None
        if s not in ids:
            ids[s] = len(ids)
        return ids[s]

    out = []
    for e in events:
        row = [ev_kind(e), ix(e.span_id), ix(e.parent_span_id), "r" + str(ix("run:" + e.run_id)), getattr(e, "node_name", None), getattr(e, "graph_name", None)]
        if isinstance(e, T.RunStartEvent):
            row += [e.is_map, e.map_size]
        if isinstance(e, T.RunEndEvent):
            row += [e.status.value if hasattr(e.status, "value") else e.status]
        if isinstance(e, T.NodeEndEvent):
            row += [e.cached]
        if isinstance(e, T.RouteDecisionEvent):
            row += [_dec(e.decision)]
        if isinstance(e, T.NodeErrorEvent):
            row += [e.error_type.rsplit(".", 1)[-1]]
        out.append(tuple(row))
    return out


def _dec(d: Any) -> Any:
    if isinstance(d, list):
        return [_dec(x) for x in d]
    if isinstance(d, type):
        return "@END"
    return d


def span_tree(events: list[Any]) -> Any:
    """Order-insensitive canonical tree of spans (for streams whose interleaving may differ)."""
    children: dict[Any, list] = {}
    info: dict[str, list] = {}
    attached: dict[Any, list] = {}
    roots = []
    for e in events:
        k = ev_kind(e)
        if k in ("RunStart", "NodeStart"):
            info[e.span_id] = [k, getattr(e, "node_name", None), getattr(e, "graph_name", None), getattr(e, "is_map", None), getattr(e, "map_size", None), None]
            if e.parent_span_id is None or e.parent_span_id not in info:
                roots.append(e.span_id)
            else:
                children.setdefault(e.parent_span_id, []).append(e.span_id)
        elif k in ("RunEnd", "NodeEnd", "NodeError"):
            if e.span_id in info:
                st = getattr(e, "status", None)
                info[e.span_id][5] = (k, st.value if hasattr(st, "value") else st, getattr(e, "cached", None))
        elif k == "CacheHit":
            attached.setdefault(e.span_id, []).append(("CacheHit", e.node_name))
        elif k == "RouteDecision":
            attached.setdefault(e.parent_span_id, []).append(("RouteDecision", e.node_name, repr(_dec(e.decision))))
        else:
            attached.setdefault(e.parent_span_id, []).append((k,))

    def build(s: str) -> Any:
        kids = sorted((build(c) for c in children.get(s, [])), key=repr)
        return (tuple(info[s]), tuple(sorted(attached.get(s, []), key=repr)), tuple(kids))

    return tuple(sorted((build(r) for r in roots), key=repr))


# ------------------------------------------------------------- span checker
def check_span_tree(events: list[Any], *, observed_status: str, shutdowns: int, after_shutdown: int, gspec: dict | None = None, gate_decisions: dict | None = None) -> list[tuple[str, Any]]:
    """Well-nestedness of the event stream of ONE terminated top-level call."""
    v: list[tuple[str, Any]] = []
    if not events:
        return [("no_events_for_accepted_call", {})]
    first, last = events[0], events[-1]
    if not isinstance(first, T.RunStartEvent) or first.parent_span_id is not None:
        v.append(("first_event_not_top_run_start", {"first": ev_kind(first)}))
    if not isinstance(last, T.RunEndEvent) or last.span_id != first.span_id:
        v.append(("last_event_not_top_run_end", {"last": ev_kind(last), "node": getattr(last, "node_name", None)}))
    else:
        st = last.status.value if hasattr(last.status, "value") else last.status
        if st != observed_status:
            v.append(("run_end_status_differs_from_observed", {"event": st, "caller": observed_status}))
    start_ix: dict[str, int] = {}
    end_ix: dict[str, int] = {}
    start_ev: dict[str, Any] = {}
    run_of_span: dict[str, str] = {}
    for i, e in enumerate(events):
        if isinstance(e, (T.RunStartEvent, T.NodeStartEvent)):
            if e.span_id in start_ix:
                v.append(("span_started_twice", {"kind": ev_kind(e), "node": getattr(e, "node_name", None)}))
                continue
            start_ix[e.span_id] = i
            start_ev[e.span_id] = e
            run_of_span[e.span_id] = e.run_id
            p = e.parent_span_id
            if p is not None:
                if p not in start_ix:
                    v.append(("parent_span_unknown_at_start", {"kind": ev_kind(e), "node": getattr(e, "node_name", None), "graph": getattr(e, "graph_name", None)}))
                elif p in end_ix:
                    v.append(("child_started_after_parent_closed", {"kind": ev_kind(e), "node": getattr(e, "node_name", None)}))
                else:
                    pe = start_ev[p]
                    if isinstance(e, T.NodeStartEvent):
                        if not isinstance(pe, T.RunStartEvent):
                            v.append(("node_parent_is_not_a_run", {"node": e.node_name}))
                        elif pe.run_id != e.run_id or pe.graph_name != e.graph_name:
                            v.append(("node_attached_to_wrong_run", {"node": e.node_name, "graph": e.graph_name, "parent_graph": pe.graph_name}))
                    else:  # nested RunStart
                        if isinstance(pe, T.NodeStartEvent):
                            if gspec is not None:
                                exp = _inner_graph_name(gspec, pe.node_name)
                                if exp is None or exp != e.graph_name:
                                    v.append(("nested_run_parented_to_wrong_node", {"run_graph": e.graph_name, "parent_node": pe.node_name, "expected_inner": exp}))
                        elif isinstance(pe, T.RunStartEvent):
                            if not pe.is_map:
                                v.append(("run_parented_to_non_map_run", {"run_graph": e.graph_name}))
                            elif pe.graph_name != e.graph_name:
                                v.append(("map_item_graph_differs", {"item": e.graph_name, "map": pe.graph_name}))
            elif i != 0:
                v.append(("second_root_span", {"kind": ev_kind(e), "graph": getattr(e, "graph_name", None)}))
        elif isinstance(e, (T.RunEndEvent, T.NodeEndEvent, T.NodeErrorEvent)):
            if e.span_id not in start_ix:
                v.append(("end_without_start", {"kind": ev_kind(e), "node": getattr(e, "node_name", None)}))
                continue
            if e.span_id in end_ix:
                v.append(("span_closed_twice", {"kind": ev_kind(e), "node": getattr(e, "node_name", None)}))
                continue
            end_ix[e.span_id] = i
            s = start_ev[e.span_id]
            if isinstance(s, T.RunStartEvent) != isinstance(e, T.RunEndEvent):
                v.append(("start_end_kind_mismatch", {"start": ev_kind(s), "end": ev_kind(e)}))
            if s.parent_span_id != e.parent_span_id or s.run_id != e.run_id:
                v.append(("end_parent_or_run_differs_from_start", {"kind": ev_kind(e), "node": getattr(e, "node_name", None)}))
            open_kids = [k for k, se in start_ev.items() if se.parent_span_id == e.span_id and k not in end_ix]
            if open_kids:
                v.append(("parent_closed_before_child", {"kind": ev_kind(e), "node": getattr(e, "node_name", None), "graph": getattr(e, "graph_name", None), "open_children": [getattr(start_ev[k], "node_name", getattr(start_ev[k], "graph_name", None)) for k in open_kids]}))
        elif isinstance(e, T.CacheHitEvent):
            if e.span_id not in start_ix or e.span_id in end_ix or not isinstance(start_ev[e.span_id], T.NodeStartEvent) or start_ev[e.span_id].node_name != e.node_name:
                v.append(("cache_hit_outside_its_node_span", {"node": e.node_name}))
        elif isinstance(e, T.RouteDecisionEvent):
            p = e.parent_span_id
            ok = p in start_ix and p not in end_ix and isinstance(start_ev[p], T.RunStartEvent) and start_ev[p].run_id == e.run_id
            gate_open = [s for s, se in start_ev.items() if isinstance(se, T.NodeStartEvent) and se.node_name == e.node_name and se.parent_span_id == p and s not in end_ix]
            if not ok or not gate_open:
                v.append(("route_decision_outside_gate_span", {"gate": e.node_name}))
            if gate_decisions is not None:
                exp = gate_decisions.get(e.node_name)
                if exp is not None and repr(_dec(e.decision)) not in exp:
                    v.append(("route_decision_event_differs_from_decision", {"gate": e.node_name, "event": repr(_dec(e.decision)), "decided": sorted(exp)}))
    unclosed = [s for s in start_ix if s not in end_ix]
    if unclosed:
        v.append(("span_never_closed", {"spans": [[ev_kind(start_ev[s]), getattr(start_ev[s], "node_name", getattr(start_ev[s], "graph_name", None))] for s in unclosed[:4]]}))
    if shutdowns != 1:
        v.append(("shutdown_count", {"shutdowns": shutdowns}))
    if after_shutdown:
        v.append(("event_after_shutdown", {"n": after_shutdown}))
    return v


def _inner_graph_name(gspec: dict, node_name: str) -> str | None:
    from .spec import iter_nodes

    for nd, _d, _p in iter_nodes(gspec):
        if nd["kind"] == "graph" and nd["name"] == node_name:
            return nd["graph"].get("name")
    return None


def with_identity(proc: Any, kind: str) -> Any:
    """Give a processor object unusual but legal identity semantics.

    ``unhashable``: defines __eq__ without __hash__ (like a plain @dataclass) -> cannot be a dict key.
    ``equal``: all such processors compare equal and hash alike (like frozen dataclasses with equal fields).
    """
    if kind == "plain":
        return proc
    base = type(proc)
    if kind == "unhashable":
        cls = type(base.__name__ + "Unhashable", (base,), {"__eq__": lambda self, other: self is other, "__hash__": None})
    else:
        cls = type(base.__name__ + "Equal", (base,), {"__eq__": lambda self, other: isinstance(other, (SyncProc, AsyncProc)), "__hash__": lambda self: 7})
    proc.__class__ = cls
    return proc
