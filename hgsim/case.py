"""Helpers shared by the checks: run a spec on a runner inside a fresh world."""

from __future__ import annotations

import copy
from typing import Any

from .rt import Runtime
from .spec import compile_with, iter_nodes
from .util import canon, digest, mix
from .world import call_async, call_sync, make_runner, patched


_RESERVED = {"select", "on_missing", "on_internal_override", "entrypoint", "max_iterations", "max_concurrency", "error_handling", "event_processors", "_parent_span_id", "graph", "values", "self", "map_over", "map_mode", "clone"}


class BuildError(Exception):
    """Graph construction rejected the generated program (the case is discarded)."""


def all_sync(gspec: dict) -> dict:
    g = copy.deepcopy(gspec)
    for n, _d, _p in iter_nodes(g):
        if n["kind"] == "fn":
            n["async"] = False
    return g


def build(gspec: dict, rt: Runtime, mode: str, bind: dict | None = None) -> tuple[Any, Any]:
    try:
        if bind:
            # bind before select/entrypoints are applied (a selection narrows which names may be bound)
            gspec = dict(gspec, bind={**(gspec.get("bind") or {}), **bind})
        graph, comp = compile_with(gspec, rt, mode)
    except Exception as e:  # noqa: BLE001 - constructor verdicts are not judged by run-time checks
        raise BuildError(f"{type(e).__name__}: {str(e)[:200]}") from e
    return graph, comp


def run_world(
    gspec: dict,
    values: dict,
    *,
    mode: str,  # "sync" | "async" | "async_syncfn"
    bind: dict | None = None,
    cfg: dict | None = None,
    faults: list | None = None,
    run_kwargs: dict | None = None,
    op: str = "run",
    cache: Any = None,
    monitors: list | None = None,
    processors_factory: Any = None,
    step_cap: int = 200_000,
    prepare: Any = None,
    derive: Any = None,
    warm_values: Any = None,
    kw_split: int | None = None,
    warn_errors: bool = False,
) -> dict:
    """One fresh world: compile, run one top-level call, return outcome + runtime.

    ``cfg``: {"schedule", "shuffle", "max_concurrency"} for async modes.
    """
    cfg = cfg or {}
    rt = Runtime(schedule=cfg.get("schedule") if mode != "sync" else None, faults=faults)
    rt.runtime_warnings_are_errors = bool(warn_errors)
    if monitors:
        rt.monitors.extend(monitors)
    kw = dict(run_kwargs or {})
    with patched(rt):
        spec = all_sync(gspec) if mode == "async_syncfn" else gspec
        graph, comp = build(spec, rt, "sync" if mode == "sync" else "async", bind)
        if prepare is not None:
            prepare(rt, graph, comp)
        if derive is not None:
            # object reuse: the base graph object is USED first (one run), only then the configured graph is derived
            # from that very instance (with_entrypoint/select/bind return new objects that must not inherit anything stale)
            wv = warm_values(graph) if callable(warm_values) else dict(warm_values or {})
            if mode == "sync":
                r0 = make_runner("sync", rt, None)
                call_sync(rt, lambda: r0.run(graph, dict(wv), error_handling="continue"), call_id="warm")
            else:
                r0 = make_runner("async", rt, None)
                call_async(rt, [lambda: r0.run(graph, dict(wv), error_handling="continue")], call_ids=["warm"])
            rt.log("derive_marker")
            try:
                graph = derive(graph)
            except Exception as e:  # noqa: BLE001
                raise BuildError(f"{type(e).__name__}: {str(e)[:200]}") from e
        if callable(values):
            values = values(graph)
        if processors_factory is not None:
            kw["event_processors"] = processors_factory(rt)
        full_values = values
        if kw_split is not None and op == "run" and isinstance(values, dict):
            # pass some inputs as keyword arguments next to the values mapping (both spellings are public API)
            values = dict(values)
            for name in sorted(values):
                if name.isidentifier() and name not in _RESERVED and name not in kw and mix("kw", kw_split, name) % 3 == 0:
                    kw[name] = values.pop(name)
        if mode == "sync":
            runner = make_runner("sync", rt, cache)
            fn = getattr(runner, op)
            out = call_sync(rt, lambda: fn(graph, dict(values), **kw))
        else:
            runner = make_runner("async", rt, cache)
            fn = getattr(runner, op)
            mc = cfg.get("max_concurrency")
            if mc is not None:
                kw["max_concurrency"] = mc
            out = call_async(
                rt,
                [lambda: fn(graph, dict(values), **kw)],
                shuffle_seed=cfg.get("shuffle"),
                limits=[mc],
                step_cap=step_cap,
            )[0]
    return {"out": out, "rt": rt, "graph": graph, "comp": comp, "values": full_values}


def invocations(rt: Runtime, *, kinds: tuple = ("fn", "gate", "interrupt")) -> list[tuple[str, str]]:
    """Multiset (as sorted list) of (node, canonical args) over all enter records."""
    return sorted((h["n"], canon(h["a"])) for h in rt.history if h["k"] == "enter" and h.get("nk", "fn") in kinds)


def enters(rt: Runtime, node: str | None = None) -> list[dict]:
    return [h for h in rt.history if h["k"] == "enter" and (node is None or h["n"] == node)]


def completion_sig(rt: Runtime) -> str:
    return digest([(h["k"][0], h.get("key")) for h in rt.history if h["k"] in ("enter", "exit", "raise")], 6)


def hist_digest(rts: list[Runtime]) -> str:
    rows = []
    for rt in rts:
        for h in rt.history:
            rows.append([h["k"], h.get("n"), h.get("i"), h.get("key"), canon(h.get("a")), canon(h.get("v")), round(h["t"], 6), h.get("r"), h.get("ready")])
    return digest(rows, 8)


def sim_stats(res: dict, out: dict) -> None:
    """Accumulate simulated time / steps of an async outcome into a CaseResult."""
    sim = out.get("sim")
    if sim:
        res["sim_time"] += sim.get("t_end") or 0.0
        res["steps"] += sim.get("steps") or 0


def fault_counts(rt: Runtime, stats: dict) -> None:
    for f in rt.fired:
        stats["fault_node_raise"] = stats.get("fault_node_raise", 0) + 1
    for k, v in rt.probes.items():
        if k != "time_reads":
            stats["probe_" + k] = stats.get("probe_" + k, 0) + v
    if rt.decision_log:
        stats["fault_hold_open_releases"] = stats.get("fault_hold_open_releases", 0) + len(rt.decision_log)


def fill_values(inputs: dict, keep: list[str] | tuple = ()) :
    """values(graph): provided minus omitted, but never omitting what the graph requires."""

    def f(graph: Any) -> dict:
        prov = inputs["provide"]
        omit = set(inputs.get("omit", []))
        vals = {k: v for k, v in prov.items() if k not in omit or k in keep or isinstance(v, list)}
        try:
            req = list(graph.inputs.required)
        except Exception:  # noqa: BLE001
            req = []
        for r in req:
            if r not in vals:
                vals[r] = prov[r] if r in prov else 11
        return vals

    return f
