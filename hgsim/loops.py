"""Ring-loop workloads and their sequential reference model (shared by C04 and C17)."""

from __future__ import annotations

from typing import Any

from .util import canon, mix


def loop_model(blk: dict, entry: int) -> dict:
    """The equivalent sequential program.

    while-loop when the gate reads the loop state directly and the run enters at b0;
    do-while when the gate is synchronised on the end-of-iteration signal; for a
    mid-body entry the tail of the body runs first.
    """
    L, N = blk["L"], blk["N"]
    cnt = [0] * L
    gate = 0

    def run_from(i: int, val: int) -> int:
        for j in range(i, L):
            cnt[j] += 1
            if j == L - 1:
                val = val + 1
        return val

    if blk.get("late"):
        do_while = blk["open"]  # signal arrives a step later: an open gate lets the body start first
    elif blk.get("gate_late"):
        do_while = blk["open"]  # the gate cannot decide in the first step: an open gate lets the body start first
    else:
        do_while = blk["signal"]
    if entry > 0 or do_while:
        s = run_from(entry, 0)
    else:
        s = 0
    while True:
        gate += 1
        if s < N:
            s = run_from(0, s)
        else:
            break
    out: dict[str, Any] = {"s": s, "body_counts": cnt, "gate_evals": gate}
    if blk["exit"]:
        pfx = blk["prefix"]
        out["exit_value"] = mix(f"{pfx}fin", 0, [(f"{pfx}s0", canon(s))])
    return out


def loop_graph(blk: dict, order: list[int] | None = None, name: str = "loop") -> dict:
    nodes = blk["nodes"]
    return {"name": name, "nodes": nodes, "order": order or list(range(len(nodes))), "ext": [], "lists": [], "seeds": [blk["seed"]]}


def count_invocations(rt: Any, blk: dict) -> dict:
    pfx = blk["prefix"]
    body = [0] * blk["L"]
    gate = 0
    fin = 0
    for h in rt.history:
        if h["k"] != "enter":
            continue
        n = h["n"]
        if n == f"{pfx}g":
            gate += 1
        elif n == f"{pfx}fin":
            fin += 1
        elif n.startswith(f"{pfx}b"):
            body[int(n[len(pfx) + 1 :])] += 1
    return {"body_counts": body, "gate_evals": gate, "fin": fin}


def top_steps(rt: Any) -> list[dict]:
    top = None
    for h in rt.history:
        if h["k"] == "run_begin" and h.get("depth") == 1:
            top = h["r"]
            break
    steps: list[dict] = []
    for h in rt.history:
        if h.get("r") != top:
            continue
        if h["k"] == "step_begin":
            steps.append({"ready": h["ready"], "vals": None, "ok": None})
        elif h["k"] == "step_end" and steps:
            steps[-1]["vals"] = h.get("vals")
            steps[-1]["ok"] = h.get("ok")
    return steps
