"""Compile JSON program specs into real hypergraph objects.

Node functions are produced with ``exec`` from per-node source text because
hypergraph takes parameter names, defaults and the definition hash from the
function object.  Each function carries a unique string constant (distinct
definition hash) and delegates to the harness runtime.
"""

from __future__ import annotations

from typing import Any

import hypergraph as hg
from hypergraph.nodes.function import FunctionNode
from hypergraph.nodes.gate import END, IfElseNode, RouteNode
from hypergraph.nodes.interrupt import InterruptNode

END_MARK = "@END"


def conv_decision(d: Any) -> Any:
    if d == END_MARK:
        return END
    if isinstance(d, list):
        return [conv_decision(x) for x in d]
    return d


def _target(t: Any) -> Any:
    return END if t == END_MARK else t


def _sig(params: list[dict]) -> str:
    req = [p for p in params if "default" not in p]
    opt = [p for p in params if "default" in p]
    def lit(v: Any) -> str:
        return "([],)" if v == "__tuple_of_list__" else repr(v)  # (JSON has no tuples: a marker stands for a tuple holding a list)

    parts = [p["name"] for p in req] + [f"{p['name']}={lit(p['default'])}" for p in opt]
    return ", ".join(parts)


def _argdict(params: list[dict]) -> str:
    return "{" + ", ".join(f"'{p['name']}': {p['name']}" for p in params) + "}"


def _tup(names: list[str]) -> Any:
    if not names:
        return None
    if len(names) == 1:
        return names[0]
    return tuple(names)


class Compiler:
    def __init__(self, rt: Any, mode: str, *, decorators: bool = False) -> None:
        assert mode in ("sync", "async")
        self.rt = rt
        self.mode = mode
        self.decorators = decorators  # build nodes through the public decorators instead of the node classes
        self.funcs: dict[str, Any] = {}
        self.ns: dict[str, Any] = {"rt": rt, "_conv": conv_decision}
        self.nodes: dict[str, Any] = {}  # name -> hypergraph node (all levels)

    # ------------------------------------------------------------ functions
    def _func(self, key: str, src: str, fname: str) -> Any:
        if key not in self.funcs:
            exec(src, self.ns)  # noqa: S102 - generated harness code
            self.funcs[key] = self.ns[fname]
        return self.funcs[key]

    def _is_async(self, node: dict) -> bool:
        if self.mode == "sync":
            return False
        a = node.get("async")
        return True if a is None else bool(a)

    def fn_node(self, node: dict) -> Any:
        bkey = node.get("fid", node["name"])
        self.rt.node_specs.setdefault(bkey, node)
        is_async = self._is_async(node)
        params = node.get("params", [])
        if node.get("closure"):
            # a closure produced by a file-defined factory: same source text as its siblings, different captured key
            from . import closures

            closures.CURRENT = self.rt
            if node.get("ckind"):
                # sibling callables that differ in something other than a closure cell: two lambdas on one source line,
                # bound methods of two instances, exec-built functions differing in a global's name (always plain functions)
                which = node["ckind_which"]
                self.rt.node_specs.setdefault("ck" + which, node)
                func = {"lambda": lambda: closures.LAM[which], "method": lambda: closures.make_method(which), "names": lambda: closures.make_by_global_name(which)}[node["ckind"]]()
                return self._make_fn(node, func, False)
            if "salt" in node:
                tag = node["salt_base"] + ":" + repr(node["salt"])
                self.rt.node_specs.setdefault(tag, node)
                func = (closures.make_salted_async if is_async else closures.make_salted)(node["salt_base"], node["salt"])
            else:
                func = (closures.make_unary_async if is_async else closures.make_unary)(bkey)
            return self._make_fn(node, func, False)
        deco = self.decorators and bkey == node["name"]
        fname = node["name"] if deco else f"f_{bkey}"
        gen = bool(node.get("gen"))
        if is_async and node.get("wrap_async") and not gen:
            # a plain function that returns a coroutine (e.g. an async def behind a decorator or a forwarding lambda)
            src = (
                f"async def {fname}__inner({_sig(params)}):\n    _uid = 'uid:{bkey}'\n    return await rt.abody('{bkey}', {_argdict(params)})\n"
                f"def {fname}({_sig(params)}):\n    return {fname}__inner({', '.join(p['name'] + '=' + p['name'] for p in params)})\n"
            )
            func = self._func(("fnw", bkey, fname), src, fname)
            return self._make_fn(node, func, deco)
        if gen and node.get("gen_wrapped"):
            # a PLAIN function that returns a generator object (a helper's generator handed through, a decorated generator function)
            src = (
                f"def {fname}__inner({_sig(params)}):\n    _uid = 'uid:{bkey}'\n    yield from rt.gen_body('{bkey}', {_argdict(params)})\n"
                f"def {fname}({_sig(params)}):\n    return {fname}__inner({', '.join(p['name'] + '=' + p['name'] for p in params)})\n"
            )
            func = self._func(("fngw", bkey, fname), src, fname)
            return self._make_fn(node, func, deco)
        if gen:
            if is_async:
                body = f"    async for _v in rt.agen_body('{bkey}', {_argdict(params)}):\n        yield _v\n"
            else:
                body = f"    yield from rt.gen_body('{bkey}', {_argdict(params)})\n"
        elif is_async:
            body = f"    return await rt.abody('{bkey}', {_argdict(params)})\n"
        else:
            body = f"    return rt.body('{bkey}', {_argdict(params)})\n"
        head = f"{'async ' if is_async else ''}def {fname}({_sig(params)}):\n    _uid = 'uid:{bkey}'\n"
        func = self._func(("fn", bkey, is_async, gen, fname), head + body, fname)
        return self._make_fn(node, func, deco)

    def _make_fn(self, node: dict, func: Any, deco: bool) -> Any:
        kw = dict(
            cache=bool(node.get("cache", False)),
            emit=_tup(node.get("emit", [])),
            wait_for=_tup(node.get("wait_for", [])),
            rename_inputs=node.get("rename_inputs") or None,
        )
        late_ri = None
        if node.get("rename_after_use") and kw.get("rename_inputs"):
            # the node object is built without the renames, USED (introspected, placed in a throw-away graph), and only then renamed
            late_ri, kw["rename_inputs"] = kw["rename_inputs"], None
        ren = {}
        if node.get("emit_via_rename") and node.get("emit"):
            # the signal is declared under a provisional name and renamed with with_outputs (emit outputs are outputs)
            ren = {"pre_" + e: e for e in node["emit"]}
            kw["emit"] = _tup(list(ren))
        n = hg.node(output_name=_tup(node.get("outs", [])), **kw)(func) if deco else FunctionNode(func, name=node["name"], output_name=_tup(node.get("outs", [])), **kw)
        if late_ri:
            _ = (n.inputs, n.outputs, n.defaults, n.definition_hash)
            try:
                hg.Graph([n], name="throwaway")
            except Exception:  # noqa: BLE001
                pass
            n = n.with_inputs(**late_ri)
        return n.with_outputs(**ren) if ren else n

    def gate_node(self, node: dict) -> Any:
        bkey = node.get("fid", node["name"])
        self.rt.node_specs.setdefault(bkey, node)
        params = node.get("params", [])
        fname = f"g_{bkey}"
        src = f"def {fname}({_sig(params)}):\n    _uid = 'uid:{bkey}'\n    return _conv(rt.gate_body('{bkey}', {_argdict(params)}))\n"
        func = self._func(("gate", bkey), src, fname)
        common = dict(
            cache=bool(node.get("cache", False)),
            default_open=bool(node.get("default_open", True)),
            name=node["name"],
            emit=_tup(node.get("emit", [])),
            wait_for=_tup(node.get("wait_for", [])),
        )
        deco = self.decorators and bkey == node["name"]
        if node["kind"] == "ifelse":
            if deco:
                return hg.ifelse(_target(node["when_true"]), _target(node["when_false"]), **common)(func)
            return IfElseNode(func, _target(node["when_true"]), _target(node["when_false"]), **common)
        fb = node.get("fallback")
        if deco:
            return hg.route([_target(t) for t in node["targets"]], fallback=_target(fb) if fb is not None else None, multi_target=bool(node.get("multi", False)), **common)(func)
        return RouteNode(
            func,
            [_target(t) for t in node["targets"]],
            fallback=_target(fb) if fb is not None else None,
            multi_target=bool(node.get("multi", False)),
            **common,
        )

    def interrupt_node(self, node: dict) -> Any:
        bkey = node["name"]
        self.rt.node_specs.setdefault(bkey, node)
        self.rt.interrupt_scripts.setdefault(bkey, list(node.get("script", [])))
        params = node.get("params", [])
        fname = bkey if self.decorators else f"i_{bkey}"
        is_async = bool(node.get("async_handler", False))
        if node.get("async_handler") == "wrapped":
            # a plain callable that returns an awaitable (sync function delegating to an async service)
            src = (
                f"async def {fname}__inner({_sig(params)}):\n    _uid = 'uid:{bkey}'\n    return await rt.aint_body('{bkey}', {_argdict(params)})\n"
                f"def {fname}({_sig(params)}):\n    return {fname}__inner({', '.join(p['name'] + '=' + p['name'] for p in params)})\n"
            )
            is_async = "wrapped"
        elif is_async:
            src = f"async def {fname}({_sig(params)}):\n    _uid = 'uid:{bkey}'\n    return await rt.aint_body('{bkey}', {_argdict(params)})\n"
        else:
            src = f"def {fname}({_sig(params)}):\n    _uid = 'uid:{bkey}'\n    return rt.int_body('{bkey}', {_argdict(params)})\n"
        func = self._func(("int", bkey, is_async, fname), src, fname)
        if self.decorators:
            return hg.interrupt(output_name=_tup(node["outs"]), emit=_tup(node.get("emit", [])), wait_for=_tup(node.get("wait_for", [])), rename_inputs=node.get("rename_inputs") or None, cache=bool(node.get("cache", False)))(func)
        return InterruptNode(
            func,
            name=node["name"],
            output_name=_tup(node["outs"]),
            emit=_tup(node.get("emit", [])),
            wait_for=_tup(node.get("wait_for", [])),
            rename_inputs=node.get("rename_inputs") or None,
            cache=bool(node.get("cache", False)),
        )

    def graph_node(self, node: dict) -> Any:
        if node.get("share"):
            # the SAME inner Graph object mounted under several node names (one sub-graph template used several times)
            shared = self.__dict__.setdefault("_shared_graphs", {})
            if node["share"] not in shared:
                shared[node["share"]] = self.graph(node["graph"])
            inner = shared[node["share"]]
        else:
            inner = self.graph(node["graph"])
        gn = inner.as_node(name=node["name"])
        touch = node.get("touch") or []
        self._touch(gn, touch)
        for step in node.get("renames", []):
            if step.get("inputs"):
                gn = gn.with_inputs(**step["inputs"])
            if step.get("outputs"):
                gn = gn.with_outputs(**step["outputs"])
            self._touch(gn, touch)
        if node.get("map_over"):
            gn = gn.map_over(
                *node["map_over"],
                mode=node.get("map_mode", "zip"),
                error_handling=node.get("error_handling", "raise"),
                clone=node.get("clone", False),
            )
        if getattr(self, "_sib", False):
            # throw-away variants derived from this very wrapper object (renamed outputs, swapped inputs, another name): deriving
            # must not change the wrapper itself
            try:
                outs = list(gn.outputs)
                ins = list(gn.inputs)
                if outs:
                    gn.with_outputs(**{outs[0]: outs[0] + "_decoy"})
                if len(ins) >= 2:
                    gn.with_inputs(**{ins[0]: ins[1], ins[1]: ins[0]})
                elif ins:
                    gn.with_inputs(**{ins[0]: ins[0] + "_decoy"})
                gn.with_name(node["name"] + "_decoy")
            except Exception:  # noqa: BLE001 - a rejected decoy is no decoy
                pass
        for step in node.get("renames_after", []):
            # renames applied AFTER map_over was configured (the mapping configuration must follow them)
            if step.get("inputs"):
                gn = gn.with_inputs(**step["inputs"])
            if step.get("outputs"):
                gn = gn.with_outputs(**step["outputs"])
        return gn

    @staticmethod
    def _touch(gn: Any, touch: list) -> None:
        """Use a wrapper object before deriving from it (introspection, placement in a throw-away graph):
        a derived object must not inherit anything stale from an object that was already used."""
        if "spec" in touch:
            for p in gn.inputs:
                gn.has_default_for(p)
                gn.has_signature_default_for(p)
                gn.get_input_type(p)
            gn.map_inputs_to_params({p: 0 for p in gn.inputs})
            gn.map_outputs_from_original({o: 0 for o in gn.outputs})
            _ = gn.definition_hash
        if "graph" in touch:
            g0 = hg.Graph([gn])
            _ = (g0.inputs, g0.outputs)

    def node(self, node: dict) -> Any:
        k = node["kind"]
        if k == "fn":
            n = self.fn_node(node)
        elif k in ("route", "ifelse"):
            n = self.gate_node(node)
        elif k == "interrupt":
            n = self.interrupt_node(node)
        elif k == "graph":
            n = self.graph_node(node)
        else:
            raise ValueError(k)
        self.nodes[node["name"]] = n
        return n

    def graph(self, g: dict) -> Any:
        prev_sib = getattr(self, "_sib", False)
        self._sib = bool(g.get("siblings"))
        try:
            nodes = [self.node(n) for n in g["nodes"]]
        finally:
            self._sib = prev_sib
        order = g.get("order")
        if order:
            nodes = [nodes[i] for i in order]
        k_add = g.get("add_nodes_after")
        if isinstance(g.get("explicit_edges"), list):
            # a hand-written edge list (tuples as the user would pass them)
            graph = hg.Graph(nodes, name=g.get("name"), edges=[tuple(e) for e in g["explicit_edges"]])
        elif g.get("explicit_edges"):
            graph = hg.Graph(nodes, name=g.get("name"), edges=self._edges(nodes, split=g.get("explicit_edges") == "split"))
        elif isinstance(k_add, int) and 0 < k_add < len(nodes):
            # incremental construction: the first nodes, the bindings, then add_nodes() for the rest
            graph = hg.Graph(nodes[:k_add], name=g.get("name"))
            if g.get("bind"):
                graph = graph.bind(**g["bind"])
            graph = graph.add_nodes(*nodes[k_add:])
            g = dict(g, bind=None)
        else:
            graph = hg.Graph(nodes, name=g.get("name"))
        touch = bool(g.get("touch"))
        sib = bool(g.get("siblings"))
        if touch:
            self._touch_graph(graph)
        if sib:
            self._decoys(graph, exclude=g.get("bind") or {})
        if g.get("bind"):
            base = graph
            graph = graph.bind(**g["bind"])
            if sib:
                # a sibling derived from the same parent AFTER the graph under test, binding the same names to other values
                self._decoys(base, same=g["bind"])
                self._decoys(graph, same=g["bind"])
            if touch:
                self._touch_graph(graph)
        if g.get("entrypoints"):
            graph = graph.with_entrypoint(*g["entrypoints"])
            if touch:
                self._touch_graph(graph)
        if g.get("select") is not None:
            graph = graph.select(*g["select"])  # (an EMPTY default selection is legal: the graph exposes nothing)
            if touch:
                self._touch_graph(graph)
        if sib:
            self._decoys(graph, exclude=g.get("bind") or {}, same=g.get("bind") or {})
        return graph

    @staticmethod
    def _decoys(graph: Any, *, exclude: dict | None = None, same: dict | None = None) -> None:
        """Derive throw-away sibling graphs from ``graph`` (bind / unbind / select / with_entrypoint return NEW graphs): a parameter
        sweep over one base graph. Nothing a sibling was given may show up in ``graph`` or in graphs derived from it later."""
        DECOY = -777
        try:
            names = [n for n in graph.inputs.all if n not in (exclude or {}) and n not in (same or {})]
        except Exception:  # noqa: BLE001
            names = []
        for kw in ([{n: DECOY} for n in names[:2]] + ([{k: DECOY for k in same}] if same else [])):
            try:
                graph.bind(**kw)
            except Exception:  # noqa: BLE001 - a rejected decoy is no decoy
                pass
        if same:
            try:
                graph.unbind(*list(same)[:1])
            except Exception:  # noqa: BLE001
                pass

    @staticmethod
    def _edges(nodes: list, split: bool = False) -> list:
        """Explicit edge list that mirrors name inference: one edge per (producer, consumer) with the shared value
        names, plus a (gate, target) edge per gate target - the way a user would spell the topology out by hand."""
        prod = {}
        for n in nodes:
            for o in n.outputs:
                prod.setdefault(o, n.name)
        edges: dict[tuple, list] = {}
        for n in nodes:
            for p in n.inputs:
                src = prod.get(p)
                if src is not None:
                    edges.setdefault((src, n.name), []).append(p)
        if split:
            # one (source, target, value) declaration per value: several declarations may share a node pair
            out: list = [(a, b, v) for (a, b), vals in edges.items() for v in vals]
        else:
            out = [(a, b, vals) for (a, b), vals in edges.items()]
        names = {n.name for n in nodes}
        for n in nodes:
            for t in getattr(n, "targets", []) or []:
                if isinstance(t, str) and t in names and (n.name, t) not in edges:
                    out.append((n.name, t))
        return out

    @staticmethod
    def _touch_graph(graph: Any) -> None:
        """Read the (cached) derived attributes of a graph object before deriving the next object from it."""
        _ = (graph.inputs, graph.outputs, graph.definition_hash, graph.controlled_by, graph.self_producers, graph.has_cycles, graph.selected, graph.entrypoints_config)
        for n in graph.iter_nodes():
            _ = (n.inputs, n.outputs, n.definition_hash)


def compile_graph(gspec: dict, rt: Any, mode: str) -> Any:
    return Compiler(rt, mode).graph(gspec)


def compile_with(gspec: dict, rt: Any, mode: str) -> tuple[Any, Compiler]:
    c = Compiler(rt, mode, decorators=bool(gspec.get("decorators")))
    return c.graph(gspec), c


# ---------------------------------------------------------------- spec walks
def iter_nodes(gspec: dict, depth: int = 0, path: tuple = ()):
    """Yield (node_spec, depth, path-of-graph-node-names) over all nesting levels."""
    for n in gspec["nodes"]:
        yield n, depth, path
        if n["kind"] == "graph":
            yield from iter_nodes(n["graph"], depth + 1, path + (n["name"],))
