"""Virtual-time, seeded asyncio event loop.

``SimLoop`` owns every scheduling decision of an asyncio program:

* ``time()`` is virtual; when nothing is ready the clock jumps to the next timer,
* exactly one ready handle runs per iteration, chosen FIFO (asyncio's own order) or
  by a seeded PRNG (``shuffle_seed``),
* when nothing is ready and no timer exists the *quiescence hook* is asked to make
  progress (release a parked node body); if it cannot, the run is a deadlock,
* a step cap turns a livelock into an outcome instead of a hang.
"""

from __future__ import annotations

import asyncio
import heapq
import random
from collections.abc import Callable
from typing import Any


class SimDeadlock(Exception):
    """Nothing is runnable, no timer is pending, and the main task has not finished."""


class SimStepCap(Exception):
    """The loop executed more handles than the cap allows (livelock guard)."""


class SimLoop(asyncio.BaseEventLoop):
    def __init__(
        self,
        *,
        shuffle_seed: int | None = None,
        step_cap: int = 200_000,
        on_quiescent: Callable[[SimLoop], bool] | None = None,
    ) -> None:
        super().__init__()
        self._now = 0.0
        self._shuffle = random.Random(shuffle_seed) if shuffle_seed is not None else None
        self._step_cap = step_cap
        self.on_quiescent = on_quiescent
        self.steps = 0
        self.clock_jumps = 0
        self.max_ready = 0
        self.shuffled_picks = 0

    # -- asyncio plumbing -------------------------------------------------
    def time(self) -> float:
        return self._now

    def _process_events(self, event_list: Any) -> None:  # no selector
        pass

    def _write_to_self(self) -> None:  # no self-pipe
        pass

    # -- the scheduler ----------------------------------------------------
    def _pop_due_timers(self) -> None:
        sched = self._scheduled
        while sched and sched[0]._cancelled:
            h = heapq.heappop(sched)
            h._scheduled = False
        while sched and sched[0]._when <= self._now:
            h = heapq.heappop(sched)
            h._scheduled = False
            if not h._cancelled:
                self._ready.append(h)
            while sched and sched[0]._cancelled:
                c = heapq.heappop(sched)
                c._scheduled = False

    def _run_once(self) -> None:
        self._pop_due_timers()
        if not self._ready:
            if self._scheduled:
                # discrete-event time: jump to the next timer
                self._now = max(self._now, self._scheduled[0]._when)
                self.clock_jumps += 1
                self._pop_due_timers()
            else:
                hook = self.on_quiescent
                if hook is None or not hook(self):
                    raise SimDeadlock("quiescent: nothing ready, no timer, nothing to release")
                return
        ready = self._ready
        n = len(ready)
        if n == 0:
            return
        if n > self.max_ready:
            self.max_ready = n
        if self._shuffle is not None and n > 1:
            i = self._shuffle.randrange(n)
            if i:
                self.shuffled_picks += 1
                ready.rotate(-i)
                handle = ready.popleft()
                ready.rotate(i)
            else:
                handle = ready.popleft()
        else:
            handle = ready.popleft()
        self.steps += 1
        if self.steps > self._step_cap:
            raise SimStepCap(f"more than {self._step_cap} loop steps")
        if not handle._cancelled:
            handle._run()
        handle = None


def run_sim(
    main_factory: Callable[[], Any],
    *,
    shuffle_seed: int | None = None,
    step_cap: int = 200_000,
    on_quiescent: Callable[[SimLoop], bool] | None = None,
    on_drain: Callable[[SimLoop], bool] | None = None,
) -> dict[str, Any]:
    """Run ``main_factory()`` (a coroutine) to completion on a fresh SimLoop.

    Returns a dict with ``result`` or ``exc`` (exception raised by the coroutine),
    ``sim_error`` ("deadlock"/"step_cap"/None), loop statistics and the number of
    tasks still pending after the loop was drained to quiescence (``orphans``).

    ``on_drain`` is the quiescence hook used after the main coroutine returned: it
    may release leftover parked bodies so that whatever an orphaned task still does
    is observed.
    """
    loop = SimLoop(shuffle_seed=shuffle_seed, step_cap=step_cap, on_quiescent=on_quiescent)
    asyncio.set_event_loop(loop)
    out: dict[str, Any] = {"result": None, "exc": None, "sim_error": None, "orphans": 0}
    try:
        try:
            out["result"] = loop.run_until_complete(main_factory())
        except SimDeadlock:
            out["sim_error"] = "deadlock"
        except SimStepCap:
            out["sim_error"] = "step_cap"
        except BaseException as e:  # noqa: BLE001 - outcome of the system under test
            out["exc"] = e
        out["t_main"] = loop.time()
        out["steps_main"] = loop.steps
        if out["sim_error"] is None:
            # drain: let everything that is still scheduled run until quiescence
            drained = loop.create_future()

            def _drain_hook(lp: SimLoop) -> bool:
                if on_drain is not None and on_drain(lp):
                    return True
                if not drained.done():
                    drained.set_result(None)
                    return True
                return False

            loop.on_quiescent = _drain_hook

            async def _drain() -> None:
                await drained

            try:
                loop.run_until_complete(_drain())
            except SimStepCap:
                out["sim_error"] = "step_cap_in_drain"
            except SimDeadlock:
                pass
            pending = [t for t in asyncio.all_tasks(loop) if not t.done()]
            out["orphans"] = len(pending)
        # cleanup: cancel whatever is left so the loop can be closed quietly
        loop.on_quiescent = lambda lp: False
        loop._step_cap = loop.steps + 100_000
        pending = [t for t in asyncio.all_tasks(loop) if not t.done()]
        for t in pending:
            t.cancel()
        if pending:
            try:
                loop.run_until_complete(asyncio.gather(*pending, return_exceptions=True))
            except BaseException:  # noqa: BLE001
                pass
        out["steps"] = loop.steps
        out["t_end"] = loop.time()
        out["clock_jumps"] = loop.clock_jumps
        out["max_ready"] = loop.max_ready
        out["shuffled_picks"] = loop.shuffled_picks
    finally:
        asyncio.set_event_loop(None)
        try:
            loop.close()
        except BaseException:  # noqa: BLE001
            pass
    return out
