"""Harness runtime: what every generated node body calls into.

One ``Runtime`` lives for one simulated *world* (one case: one or several top-level
calls).  It owns the history, the fault plan, the schedule (delays / hold-open
releases), in-flight accounting and the online monitors.
"""

from __future__ import annotations

import asyncio
from contextvars import ContextVar
from typing import Any

from .util import Ambiguous, Opaque, Versioned, canon, digest, mix

# Run label of the graph execution the current code belongs to: a tuple of
# (graph name, digest of that run's input values, ordinal among equal digests).
_LABEL: ContextVar[tuple] = ContextVar("hgsim_label", default=())
# Identifier of the top-level call (for per-call-tree in-flight accounting).
_CALL: ContextVar[str] = ContextVar("hgsim_call", default="-")


def _snapshot(v: Any) -> Any:
    """Value copy of arguments for the history (node functions may mutate what they receive)."""
    if isinstance(v, dict):
        return {k: _snapshot(x) for k, x in v.items()}
    if isinstance(v, list):
        return [_snapshot(x) for x in v]
    if isinstance(v, tuple):
        return tuple(_snapshot(x) for x in v)
    return v


class InjectedFault(Exception):
    """The exception a node_raise fault throws; identity matters to the oracles."""

    def __init__(self, fid: Any, node: str) -> None:
        super().__init__(f"injected fault {fid} in {node}")
        self.fid = fid
        self.node = node


class InjectedNoArgs(InjectedFault):
    """An injected failure that carries no arguments at all (``raise Abort``)."""

    def __init__(self, fid: Any, node: str) -> None:
        Exception.__init__(self)
        self.fid = fid
        self.node = node


class InjectedTypeError(TypeError):
    """A TypeError whose text looks like a call mismatch although it is raised inside the node body."""

    hg_injected = True

    def __init__(self, fid: Any, node: str) -> None:
        super().__init__(f"helper() got an unexpected keyword argument 'colour' (injected fault {fid} in {node})")
        self.fid = fid
        self.node = node


class InjectedKeyError(KeyError):
    hg_injected = True

    def __init__(self, fid: Any, node: str) -> None:
        super().__init__(f"injected-{fid}-{node}")
        self.fid = fid
        self.node = node


class InjectedValueError(ValueError):
    hg_injected = True

    def __init__(self, fid: Any, node: str) -> None:
        super().__init__(f"injected value error {fid} in {node}")
        self.fid = fid
        self.node = node


class InjectedStopIteration(StopIteration):
    """The classic bare next() that finds nothing: a node function may raise StopIteration like any other exception.
    (Only meaningful for plain synchronous functions: inside coroutines and generators Python itself turns it into RuntimeError.)"""

    hg_injected = True

    def __init__(self, fid: Any, node: str) -> None:
        super().__init__(f"injected stop {fid} in {node}")
        self.fid = fid
        self.node = node


class InjectedFalsy(InjectedFault):
    """A perfectly good exception whose truth value is False (a collection-like error: ``__len__`` is 0)."""

    def __len__(self) -> int:
        return 0


class InjectedBadStr(InjectedFault):
    """An exception whose ``__str__`` itself raises (a formatting bug in a user-defined error class): still the node's error."""

    def __str__(self) -> str:
        raise TypeError("__str__ of the injected exception is broken")


EXC_KINDS = {"badstr": InjectedBadStr, "falsy": InjectedFalsy, "stopiteration": InjectedStopIteration, "valueerror": InjectedValueError, "plain": InjectedFault, "noargs": InjectedNoArgs, "typeerror_kw": InjectedTypeError, "keyerror": InjectedKeyError}
InjectedFault.hg_injected = True


class ProcessDeath(BaseException):
    """Simulated death of the process (used by the disk-store crash points)."""


class Runtime:
    def __init__(self, *, schedule: dict | None = None, faults: list | None = None) -> None:
        self.history: list[dict] = []
        self.node_specs: dict[str, dict] = {}
        self.schedule = schedule or {}
        self.faults = list(faults or [])
        self.fired: list[dict] = []  # history-independent list of fired faults
        self.raised: dict[Any, list[BaseException]] = {}
        self.monitors: list = []
        self.violations: list[tuple[str, Any]] = []
        self.labels: dict[str, tuple] = {}
        self.run_values: dict[str, Any] = {}
        self._ordinals: dict[tuple, int] = {}
        self._inv: dict[tuple, int] = {}
        self._ginv: dict[str, int] = {}
        self.inflight: dict[str, dict[str, int]] = {}
        self.peak: dict[str, int] = {}
        self.limit: dict[str, int | None] = {}
        self.saturated: dict[str, int] = {}
        self.waiting_at_peak = 0
        self.parked: list[tuple[str, asyncio.Future]] = []
        self.decisions = list(self.schedule.get("decisions", []))
        self.decision_log: list[tuple[int, int]] = []
        self._hold_rng = None
        self.probes: dict[str, int] = {}
        self.loop = None  # set while a SimLoop is running
        self.vclock = 0.0
        self.interrupt_scripts: dict[str, list] = {}
        self._int_counts: dict[str, int] = {}

    # ------------------------------------------------------------------ utils
    def probe(self, name: str, n: int = 1) -> None:
        self.probes[name] = self.probes.get(name, 0) + n

    def now(self) -> float:
        if self.loop is not None:
            return self.loop.time()
        return self.vclock

    def log(self, kind: str, **fields: Any) -> dict:
        rec = {"k": kind, "s": len(self.history), "t": self.now()}
        rec.update(fields)
        self.history.append(rec)
        return rec

    def violation(self, cls: str, detail: Any) -> None:
        self.violations.append((cls, detail))

    # ------------------------------------------------------------ run labels
    def push_run(self, graph_name: str | None, values: Any) -> Any:
        parent = _LABEL.get()
        base = (graph_name or "?", digest(values, 4))
        okey = (parent, base)
        n = self._ordinals.get(okey, 0)
        self._ordinals[okey] = n + 1
        label = parent + ((base[0], base[1], n),)
        tok = _LABEL.set(label)
        lid = self.label_id(label)
        self.run_values[lid] = values
        self.log("run_begin", r=lid, g=graph_name, depth=len(label))
        return tok

    def pop_run(self, tok: Any) -> None:
        lid = self.label_id(_LABEL.get())
        self.log("run_end", r=lid)
        _LABEL.reset(tok)

    def label_id(self, label: tuple) -> str:
        if not label:
            return "-"
        lid = digest(label, 4)
        if lid not in self.labels:
            self.labels[lid] = label
        return lid

    def current_label_id(self) -> str:
        return self.label_id(_LABEL.get())

    # ----------------------------------------------------------- invocations
    def _begin(self, node: str, args: dict, kind: str = "fn") -> dict:
        lid = self.current_label_id()
        ik = (lid, node)
        inv = self._inv.get(ik, 0)
        self._inv[ik] = inv + 1
        g = self._ginv.get(node, 0)
        self._ginv[node] = g + 1
        call = _CALL.get()
        key = f"{lid}/{node}/{inv}"
        rec = self.log("enter", n=node, r=lid, i=inv, gi=g, a=_snapshot(args), c=call, key=key, nk=kind)
        rec["objs"] = dict(args)  # the very objects, for identity checks (never serialised)
        return rec

    def _track_enter(self, rec: dict) -> None:
        call = rec["c"]
        fl = self.inflight.setdefault(call, {})
        fl[rec["key"]] = rec["s"]
        n = len(fl)
        if n > self.peak.get(call, 0):
            self.peak[call] = n
        if n >= 2:
            self.probe("two_bodies_in_flight")
        k = self.limit.get(call)
        if k is not None:
            if n > k:
                self.violation("inflight_exceeds_limit", {"call": call, "in_flight": sorted(fl), "k": k})
            if n == k:
                self.saturated[call] = self.saturated.get(call, 0) + 1

    def _track_exit(self, rec: dict) -> None:
        fl = self.inflight.get(rec["c"])
        if fl is not None:
            fl.pop(rec["key"], None)

    def _fault_for(self, rec: dict, when: str) -> dict | None:
        for f in self.faults:
            if f.get("kind") != "raise" or f.get("node") != rec["n"]:
                continue
            if f.get("when", "before") != when:
                continue
            if f.get("inv") is not None and f["inv"] != rec["i"]:
                continue
            pred = f.get("pred")
            if pred and any(rec["a"].get(p) != v for p, v in pred.items()):
                continue
            rpred = f.get("run_pred")  # predicate on the INPUT VALUES of the graph run this invocation belongs to (map items)
            if rpred:
                rv = self.run_values.get(rec["r"]) or {}
                if any(rv.get(p, "<absent>") != v for p, v in rpred.items()):
                    continue
            if f.get("depth") is not None and f["depth"] != len(self.labels.get(rec["r"], ())):
                continue
            return f
        return None

    def _maybe_raise(self, rec: dict, when: str) -> None:
        f = self._fault_for(rec, when)
        if f is None:
            return
        chained = f.get("exc") == "chained"  # ``raise X from Y`` inside the node: X, not its cause Y, is the node's error
        exc = EXC_KINDS.get(f.get("exc", "plain"), InjectedFault)(f.get("fid", 0), rec["n"])
        exc.args_seen = dict(rec["a"])
        exc.label = self.labels.get(rec["r"], ())
        exc.run_values = self.run_values.get(rec["r"])
        self.raised.setdefault(exc.fid, []).append(exc)
        self.fired.append({"fid": exc.fid, "key": rec["key"], "when": when})
        self.log("raise", n=rec["n"], r=rec["r"], i=rec["i"], key=rec["key"], fid=exc.fid, c=rec["c"])
        self._run_monitors(self.history[-1])
        if chained:
            raise exc from LookupError(f"root cause of the injected fault {exc.fid}")
        raise exc

    def _run_monitors(self, rec: dict) -> None:
        for m in self.monitors:
            m(self, rec)

    def _value(self, node: str, args: dict) -> Any:
        spec = self.node_specs[node]
        beh = spec.get("beh", "mix")
        outs = spec.get("outs", [])
        tag = spec.get("fid", node)
        items = sorted(args.items())
        vals = []
        behs = spec.get("behs")
        for j, _o in enumerate(outs):
            if behs:
                # per-output behaviour of a multi-output node: "append" (list argument plus one new entry, no mutation) or "inc"
                bj = behs[j]
                if bj["beh"] == "append":
                    vals.append(list(args[bj["param"]]) + [mix(tag, "app", sorted((k, canon(v)) for k, v in args.items() if k != bj["param"]))])
                elif bj["beh"] == "half_next":
                    vals.append((args[bj["param"]] + 1) // 2)  # changes on every second increment only
                else:
                    vals.append(args[bj["param"]] + 1)
            elif beh == "inc" and j == 0:
                p = spec["beh_param"]
                vals.append(args[p] + 1)
            elif beh == "half" and j == 0:
                vals.append(args[spec["beh_param"]] // 2)  # changes on every second change of its argument only
            elif beh == "pass" and j == 0:
                vals.append(args[spec["beh_param"]])
            elif beh == "append" and j == 0:
                # accumulator that does NOT mutate: returns its list argument plus one new entry
                p = spec["beh_param"]
                vals.append(list(args[p]) + [mix(tag, "app", sorted((k, canon(v)) for k, v in args.items() if k != p))])
            elif beh == "globalrand" and j == 0:
                # a function that draws from the process-wide random module (seeded by the check before the run)
                import random as _random

                vals.append(_random.getrandbits(40))
            elif beh == "reseed" and j == 0:
                # user code that makes itself reproducible: re-seeds the process-wide random module, then samples
                import random as _random

                _random.seed(12345)
                vals.append(_random.getrandbits(40))
            elif beh == "versioned" and j == 0:
                vals.append(Versioned(mix(tag, "ver", [(k, canon(v)) for k, v in items])))
            elif beh == "opaque" and j == 0:
                vals.append(Opaque(mix(tag, "opq", [(k, canon(v)) for k, v in items])))
            elif beh == "const":
                cv = spec["beh_value"]
                vals.append(list(cv) if isinstance(cv, list) else cv)
            elif beh == "drain" and j == 0:
                # consumes (mutates) its list argument in place and returns a value derived from what it held
                p = spec["beh_param"]
                vals.append(mix(tag, "drain", canon(args[p])))
                if isinstance(args[p], list):
                    args[p].clear()
            elif beh == "snapshot_nested" and j == 0:
                # the default is a dict holding a mutable value: {"items": [], "count": 0}
                p = spec["beh_param"]
                args[p]["items"].append(mix(tag, "m", sorted((k, canon(v)) for k, v in args.items() if k != p)))
                args[p]["count"] += 1
                vals.append([list(args[p]["items"]), args[p]["count"]])
            elif beh == "snapshot_tuple" and j == 0:
                # the default is a TUPLE holding a list: immutable on the outside, mutable inside
                p = spec["beh_param"]
                args[p][0].append(mix(tag, "m", sorted((k, canon(v)) for k, v in args.items() if k != p)))
                vals.append(list(args[p][0]))
            elif beh == "snapshot" and j == 0:
                # mutate the default-valued list argument, return a snapshot of it
                p = spec["beh_param"]
                args[p].append(mix(tag, "m", sorted((k, canon(v)) for k, v in args.items() if k != p)))
                vals.append(list(args[p]))
            else:
                vals.append(mix(tag, j, [(k, canon(v)) for k, v in items]))
        if spec.get("gen"):
            # generator node (single output): the framework accumulates the yielded items
            return [vals[0], (vals[0] * 31 + 7) % (1 << 40)]
        if not outs:
            return None
        if len(outs) == 1:
            return vals[0]
        return tuple(vals)

    # ---------------------------------------------------------------- bodies
    def body(self, node: str, args: dict) -> Any:
        rec = self._begin(node, args)
        self._run_monitors(rec)
        self._track_enter(rec)
        try:
            self._maybe_raise(rec, "before")
            self._maybe_raise(rec, "after")
            val = self._value(node, args)
        except BaseException:
            self._track_exit(rec)
            raise
        self._track_exit(rec)
        self.log("exit", n=node, r=rec["r"], i=rec["i"], key=rec["key"], v=val, c=rec["c"])
        self._run_monitors(self.history[-1])
        return val

    async def abody(self, node: str, args: dict) -> Any:
        rec = self._begin(node, args)
        self._run_monitors(rec)
        self._track_enter(rec)
        try:
            self._maybe_raise(rec, "before")
            await self._wait(rec["key"], rec["a"])
            self._maybe_raise(rec, "after")
            val = self._value(node, args)
        except BaseException as e:
            self._track_exit(rec)
            if isinstance(e, asyncio.CancelledError):
                self.log("cancelled", n=node, r=rec["r"], i=rec["i"], key=rec["key"], c=rec["c"])
            raise
        self._track_exit(rec)
        self.log("exit", n=node, r=rec["r"], i=rec["i"], key=rec["key"], v=val, c=rec["c"])
        self._run_monitors(self.history[-1])
        return val

    def gen_body(self, node: str, args: dict):
        val = self.body(node, args)
        yield from val

    async def agen_body(self, node: str, args: dict):
        val = await self.abody(node, args)
        for v in val:
            yield v

    def gate_body(self, node: str, args: dict) -> Any:
        rec = self._begin(node, args, kind="gate")
        self._run_monitors(rec)
        self._track_enter(rec)  # a routing function is a node function: it counts as executing while it runs
        try:
            self._maybe_raise(rec, "before")
            spec = self.node_specs[node]
            dec = decide(spec["decide"], args, rec["i"], spec.get("fid", node))
        finally:
            self._track_exit(rec)
        self.log("exit", n=node, r=rec["r"], i=rec["i"], key=rec["key"], v=dec, c=rec["c"], nk="gate")
        self._run_monitors(self.history[-1])
        return dec

    def _interrupt_response(self, node: str, args: dict, rec: dict) -> Any:
        script = self.interrupt_scripts.get(node, [])
        n = self._int_counts.get(node, 0)
        self._int_counts[node] = n + 1
        action = script[n] if n < len(script) else "auto"
        spec = self.node_specs[node]
        if action is None or action == "pause":
            self.log("handler_pause", n=node, r=rec["r"], i=rec["i"], key=rec["key"])
            return None
        resp = interrupt_response(spec, args)
        if spec.get("shared_resp") and isinstance(resp, dict):
            # the handler hands out ONE dict object every time it is asked (a module-level constant, a cached answer):
            # that object belongs to the handler's author, the framework must not write into it
            shared = self.__dict__.setdefault("shared_responses", {})
            key = (node, canon(resp))
            resp = shared.setdefault(key, resp)
        return resp

    def int_body(self, node: str, args: dict) -> Any:
        rec = self._begin(node, args, kind="interrupt")
        self._run_monitors(rec)
        self._track_enter(rec)  # a handler is the interrupt node's function: it counts as an executing node function
        try:
            self._maybe_raise(rec, "before")
            val = self._interrupt_response(node, args, rec)
        finally:
            self._track_exit(rec)
        self.log("exit", n=node, r=rec["r"], i=rec["i"], key=rec["key"], v=val, c=rec["c"], nk="interrupt")
        return val

    async def aint_body(self, node: str, args: dict) -> Any:
        rec = self._begin(node, args, kind="interrupt")
        self._run_monitors(rec)
        self._track_enter(rec)
        try:
            self._maybe_raise(rec, "before")
            await self._wait(rec["key"])
            val = self._interrupt_response(node, args, rec)
        finally:
            self._track_exit(rec)
        self.log("exit", n=node, r=rec["r"], i=rec["i"], key=rec["key"], v=val, c=rec["c"], nk="interrupt")
        return val

    # -------------------------------------------------------------- schedule
    def delay_for(self, key: str) -> Any:
        table = self.schedule.get("delays") or {}
        if key in table:
            return table[key]
        choices = self.schedule.get("choices") or [0]
        return choices[mix("delay", self.schedule.get("seed", 0), key) % len(choices)]

    async def _wait(self, key: str, args: dict | None = None) -> None:
        mode = self.schedule.get("mode", "delay")
        ad = self.schedule.get("arg_delay")
        if ad and args is not None and mode != "hold":
            # delay decided by the value of one argument (e.g. the mapped item): adversarial item orders
            v = args.get(ad["param"])
            d = ad["table"].get(str(v))
            if d is not None:
                await asyncio.sleep(d)
                return
        if mode == "hold":
            fut = asyncio.get_event_loop().create_future()
            self.parked.append((key, fut))
            self.log("park", key=key)
            await fut
            return
        d = self.delay_for(key)
        if d is None or d == "none":
            return  # no suspension at all
        segs = d if isinstance(d, list) else [d]
        for seg in segs:
            await asyncio.sleep(seg)

    def release_one(self, loop: Any = None) -> bool:
        """Quiescence hook for hold mode: finish exactly one parked body."""
        live = [(k, f) for k, f in self.parked if not f.done()]
        if not live:
            self.parked = []
            return False
        live.sort(key=lambda kf: kf[0])
        n = len(live)
        if self.decisions:
            i = self.decisions.pop(0) % n
        elif self.schedule.get("sweep"):
            i = 0
        else:
            if self._hold_rng is None:
                import random

                self._hold_rng = random.Random(mix("hold", self.schedule.get("seed", 0)))
            i = self._hold_rng.randrange(n)
        self.decision_log.append((i, n))
        key, fut = live[i]
        # saturation: bodies are parked and nothing else can make progress
        self.log("release", key=key, parked=[k for k, _ in live])
        self.parked = [(k, f) for k, f in live if f is not fut]
        fut.set_result(None)
        return True


def decide(d: dict, args: dict, inv: int, tag: str) -> Any:
    """Pure decision function of a generated gate."""
    op = d["op"]
    if op == "lt":
        return d["then"] if args[d["param"]] < d["value"] else d["else"]
    if op == "mod":
        ch = d["choices"]
        basis = [(k, canon(v)) for k, v in sorted(args.items())]
        return ch[mix(tag, "dec", basis) % len(ch)]
    if op == "script":
        seq = d["seq"]
        return seq[min(inv, len(seq) - 1)]
    if op == "const":
        return d["value"]
    raise ValueError(f"unknown decide op {op}")


_FALSY = {"zero": 0, "false": False, "empty_str": "", "empty_list": []}


def interrupt_response(spec: dict, args: dict) -> Any:
    """What a handler answers (and what the harness answers on resume). ``resp`` kinds other than
    the default produce falsy-but-not-None answers (0, False, "", []), which are perfectly legal."""
    outs = spec.get("outs", [])
    tag = spec.get("fid", spec["name"])
    basis = [(k, canon(v)) for k, v in sorted(args.items())]
    kinds = spec.get("resp") or []

    def one(j: int) -> Any:
        k = kinds[j] if j < len(kinds) else None
        if k == "ambiguous":
            return Ambiguous(mix(tag, "resp", j, basis))
        if k == "dict_own_key":
            # the answer is itself a dict, keyed by the interrupt's own output name: {"decision": ...} as the VALUE of decision
            return {outs[j]: mix(tag, "resp", j, basis)}
        if k in _FALSY:
            v = _FALSY[k]
            return list(v) if isinstance(v, list) else v
        return mix(tag, "resp", j, basis)

    if len(outs) <= 1:
        return one(0)
    return {o: one(j) for j, o in enumerate(outs)}
