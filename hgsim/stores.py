"""Cache seams: recording/faulting CacheBackend wrapper, in-memory fake of the ``diskcache``
library with fault points on every write, and a ``pickle`` shim for ``hypergraph.cache``."""

from __future__ import annotations

import pickle as _pickle
import sys
import types
from collections import OrderedDict
from typing import Any

from .rt import ProcessDeath


class RecordingBackend:
    """Wraps a real CacheBackend; records every get/set in the runtime history and can
    inject ``spurious miss`` (answer miss without asking) at chosen get indices."""

    def __init__(self, inner: Any, world: "CacheWorld") -> None:
        self.inner = inner
        self.world = world

    def get(self, key: str) -> tuple[bool, Any]:
        w = self.world
        i = w.n_get
        w.n_get += 1
        if i in w.spurious_miss_at:
            w.log("cget", key=key, hit=False, spurious=True)
            w.count("cache_spurious_miss")
            return False, None
        hit, val = self.inner.get(key)
        w.log("cget", key=key, hit=bool(hit), spurious=False)
        return hit, val

    def set(self, key: str, value: Any) -> None:
        w = self.world
        prev = w.rt.history[-1] if w.rt is not None and w.rt.history else None
        owner = None
        if prev is not None and prev["k"] == "exit":
            owner = (prev["n"], prev["key"])
        w.log("cset", key=key, owner=owner)
        self.inner.set(key, value)


class CacheWorld:
    """State shared by all runs of one cache history (the backend outlives the runtimes)."""

    def __init__(self) -> None:
        self.rt = None  # current Runtime
        self.ops: list[dict] = []  # all cget/cset/evict records over the whole history
        self.n_get = 0
        self.spurious_miss_at: set[int] = set()
        self.counters: dict[str, int] = {}

    def log(self, kind: str, **f: Any) -> None:
        rec = {"k": kind, "run": len([o for o in self.ops if o["k"] == "run_mark"])}
        rec.update(f)
        self.ops.append(rec)
        if self.rt is not None:
            self.rt.log(kind, **f)

    def count(self, name: str, n: int = 1) -> None:
        self.counters[name] = self.counters.get(name, 0) + n


class LruModel:
    """Reference model of InMemoryCache: OrderedDict LRU (max_size None = plain dict)."""

    def __init__(self, max_size: int | None) -> None:
        self.max = max_size
        self.d: OrderedDict[str, bool] = OrderedDict()
        self.evictions = 0

    def get(self, key: str) -> bool:
        if key in self.d:
            self.d.move_to_end(key)
            return True
        return False

    def set(self, key: str) -> None:
        if key in self.d:
            self.d.move_to_end(key)
        self.d[key] = True
        if self.max is not None and len(self.d) > self.max:
            self.d.popitem(last=False)
            self.evictions += 1

    def evict(self, key: str) -> None:
        self.d.pop(key, None)

    def holds(self, key: str) -> bool:
        return key in self.d


# ---------------------------------------------------------------- disk fake
class FakeDisk:
    """Durable state of all fake cache directories + fault plan for writes."""

    def __init__(self) -> None:
        self.dirs: dict[str, dict] = {}
        self.write_plan: dict[int, str] = {}  # write index -> "lose" | "crash_before" | "crash_after"
        self.n_write = 0
        self.last_get_key: str | None = None
        self.authentic: dict[str, set] = {}  # cache key -> payload bytes written through the API
        self.writes: list[tuple[str, str]] = []
        self.counters: dict[str, int] = {}
        self.epoch: bytes | None = None
        self.authentic_epoch: dict[tuple, set] = {}
        self.lib_unpickled: list = []  # rows the storage library itself unpickled on fetch (nothing authenticated them)
        self.last_row_key: str | None = None

    def count(self, name: str) -> None:
        self.counters[name] = self.counters.get(name, 0) + 1


def make_fake_diskcache(disk: FakeDisk) -> types.ModuleType:
    _fd = disk
    core = types.SimpleNamespace(MODE_NONE=0, MODE_RAW=1, MODE_BINARY=2, MODE_TEXT=3, MODE_PICKLE=4)

    class Disk:
        """The library's value codec: bytes / str / int / float are stored raw, EVERYTHING ELSE AS A PICKLE - and a row in pickle
        mode is unpickled by fetch() before the caller of Cache.get() sees anything (diskcache.Disk.fetch does exactly that)."""

        def __init__(self, directory: str = "", **kw: Any) -> None:
            self._directory = directory

        def fetch(self, mode: int, filename: Any, value: Any, read: bool) -> Any:
            if mode == core.MODE_PICKLE:
                disk.count("library_unpickled_a_row")
                disk.lib_unpickled.append(disk.last_row_key)
            return value

    class Cache:
        def __init__(self, directory: str, timeout: float = 60, disk: Any = Disk, **kw: Any) -> None:  # noqa: A002 - the library's parameter name
            self.directory = directory
            self.d = _fd.dirs.setdefault(directory, {})
            self._disk = disk(directory)

        def get(self, key: str, default: Any = None) -> Any:
            if not key.endswith(":hmac"):
                _fd.last_get_key = key
            if key not in self.d:
                return default
            value = self.d[key]
            _fd.last_row_key = key
            mode = core.MODE_RAW if type(value) in (bytes, str, int, float) else core.MODE_PICKLE
            return self._disk.fetch(mode, None, value, False)

        def set(self, key: str, value: Any) -> bool:
            i = disk.n_write
            disk.n_write += 1
            act = disk.write_plan.get(i)
            disk.writes.append((key, act or "ok"))
            if act == "lose":
                disk.count("disk_lost_write")
                return True
            if act == "crash_before":
                disk.count("disk_crash_between_writes")
                raise ProcessDeath(f"crash before write {i}")
            self.d[key] = value
            if not key.endswith(":hmac") and isinstance(value, bytes):
                disk.authentic.setdefault(key, set()).add(value)
                disk.authentic_epoch.setdefault((disk.epoch, key), set()).add(value)
            if act == "crash_after":
                disk.count("disk_crash_between_writes")
                raise ProcessDeath(f"crash after write {i}")
            return True

        def delete(self, key: str) -> bool:
            return self.d.pop(key, None) is not None

        def close(self) -> None:
            pass

    mod = types.ModuleType("diskcache")
    mod.Cache = Cache
    mod.Disk = Disk
    mod.core = core
    return mod


class PickleShim:
    """Stands in for the ``pickle`` module inside hypergraph.cache: records what is loaded."""

    def __init__(self, disk: Any = None) -> None:
        self.loads_seen: list[bytes] = []
        self.loads_keys: list[Any] = []
        self.dumped: set = set()
        self.disk = disk

    def __getattr__(self, name: str) -> Any:
        return getattr(_pickle, name)

    def dumps(self, obj: Any, *a: Any, **k: Any) -> bytes:
        b = _pickle.dumps(obj, *a, **k)
        self.dumped.add(b)
        return b

    def loads(self, data: Any, *a: Any, **k: Any) -> Any:
        self.loads_seen.append(data)
        self.loads_keys.append(self.disk.last_get_key if self.disk is not None else None)
        return _pickle.loads(data, *a, **k)


class DiskSeams:
    """Context manager: fake diskcache module + pickle shim installed in hypergraph.cache."""

    def __init__(self, disk: FakeDisk | None, shim: PickleShim) -> None:
        self.disk = disk
        self.shim = shim

    def __enter__(self) -> "DiskSeams":
        import hypergraph.cache as hc

        self._hc = hc
        self._old_pickle = hc.pickle
        hc.pickle = self.shim
        self._old_mod = sys.modules.get("diskcache")
        if self.disk is not None:
            sys.modules["diskcache"] = make_fake_diskcache(self.disk)
        else:
            # real library: record every row IT unpickles on fetch (DiskCache stores bytes and str only - never a pickle-mode row)
            import diskcache.core as dc

            shim = self.shim
            shim.lib_loads = []

            class _LibPickle:
                def __getattr__(self, name: str) -> Any:
                    return getattr(_pickle, name)

                def load(self, f: Any, *a: Any, **k: Any) -> Any:
                    shim.lib_loads.append(1)
                    return _pickle.load(f, *a, **k)

            self._dc, self._old_dc_pickle = dc, dc.pickle
            dc.pickle = _LibPickle()
        return self

    def __exit__(self, *exc: Any) -> None:
        self._hc.pickle = self._old_pickle
        if self.disk is None:
            self._dc.pickle = self._old_dc_pickle
        if self.disk is not None:
            if self._old_mod is not None:
                sys.modules["diskcache"] = self._old_mod
            else:
                sys.modules.pop("diskcache", None)
