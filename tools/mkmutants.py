#!/venv/bin/python
"""(Re)create the hand-written sensitivity corpus under /verif/mutants from (file, old, new) edits against /repo HEAD."""
import json, os, shutil, subprocess, sys, tempfile

VERIF = os.path.dirname(os.path.dirname(os.path.abspath(__file__)))
M = [
 ("m01-bound-before-upstream", ["C01"], "runners/_shared/helpers.py",
  '''    # 1. Edge value (from upstream node output)
    if param in state.values:
        return (ValueSource.EDGE, state.values[param])
''', '''    if param in graph.inputs.bound:
        return (ValueSource.BOUND, graph.inputs.bound[param])
    # 1. Edge value (from upstream node output)
    if param in state.values:
        return (ValueSource.EDGE, state.values[param])
''', "bound value takes precedence over upstream/provided value", "a bound name that is also provided at run time or produced upstream"),
 ("m02-sync-reads-new-state", ["C02"], "runners/sync/superstep.py",
  "        inputs = collect_inputs_for_node(node, graph, state, provided_values)\n",
  "        inputs = collect_inputs_for_node(node, graph, new_state, provided_values)\n",
  "sync superstep reads inputs from the state being updated", "a node with a defaulted upstream-fed parameter scheduled in the same step as (and after) its producer"),
 ("m03-async-no-unwrap", ["C11"], "runners/_shared/template_async.py",
  "                error = e.__cause__ or e\n", "                error = e\n",
  "async template surfaces the ExecutionError wrapper instead of the cause", "any node failure under the async runner"),
 ("m04-span-published-before-start-event", ["C12"], "runners/async_/superstep.py",
  '''        if active:
            await dispatcher.emit_async(start_evt)

        # Set node span_id on executor for nested graph propagation
        if hasattr(execute_node, "current_span_id"):
            execute_node.current_span_id[0] = node_span_id  # type: ignore[attr-defined]
''', '''        # Set node span_id on executor for nested graph propagation
        if hasattr(execute_node, "current_span_id"):
            execute_node.current_span_id[0] = node_span_id  # type: ignore[attr-defined]
        if active:
            await dispatcher.emit_async(start_evt)
''', "shared span holder written before the (awaiting) NodeStart emission", "two concurrent sibling graph nodes and an async processor that yields"),
 ("m05-shutdown-async-propagates", ["C13"], "events/dispatcher.py",
  '''            except Exception:
                if self._strict:
                    raise
                logger.warning(
                    "EventProcessor %s failed during shutdown",
                    processor,
                    exc_info=True,
                )
''', '''            except ZeroDivisionError:
                if self._strict:
                    raise
                logger.warning(
                    "EventProcessor %s failed during shutdown",
                    processor,
                    exc_info=True,
                )
''', "shutdown_async lets processor exceptions escape", "an async-runner call whose processor raises in shutdown"),
 ("m06-semaphore-per-nested-run", ["C15"], "runners/async_/runner.py",
  "        if existing_limiter is None and max_concurrency is not None:\n            semaphore = asyncio.Semaphore(max_concurrency)",
  "        if max_concurrency is not None:\n            semaphore = asyncio.Semaphore(max_concurrency)",
  "every run() call with max_concurrency creates its own semaphore", "map items / nested runs that receive max_concurrency again"),
 ("m07-permit-held-around-nested-graph", ["C15"], "runners/async_/executors/graph_node.py",
  '''        result = await self.runner.run(
            node.graph,
            inner_inputs,
            event_processors=event_processors,
            _parent_span_id=parent_span_id,
        )
        return self._handle_nested_result(node, result)''',
  '''        from hypergraph.runners.async_.superstep import get_concurrency_limiter

        sem = get_concurrency_limiter()
        if sem:
            async with sem:
                result = await self.runner.run(node.graph, inner_inputs, event_processors=event_processors, _parent_span_id=parent_span_id)
        else:
            result = await self.runner.run(node.graph, inner_inputs, event_processors=event_processors, _parent_span_id=parent_span_id)
        return self._handle_nested_result(node, result)''',
  "permit held while awaiting a nested graph", "nested graph nodes with k <= nesting width"),
 ("m08-map-unsorted", ["C10"], "runners/_shared/template_async.py",
  "                results = [r for _, r in sorted(zip(order, results_list, strict=False))]",
  "                results = list(results_list)",
  "worker-pool map returns results in completion order", "max_concurrency set and items completing out of input order"),
 ("m09-no-blocked-targets", ["C03"], "runners/_shared/helpers.py",
  "        if blocked_targets:\n            ready = [n for n in ready if n.name not in blocked_targets]",
  "        if blocked_targets and False:\n            ready = [n for n in ready if n.name not in blocked_targets]",
  "targets of a ready gate are not held back", "a gate and its target runnable in the same step"),
 ("m10-no-stale-gate-clearing", ["C04"], "runners/_shared/helpers.py",
  "    _clear_stale_gate_decisions(graph, state)\n\n    activated = set()", "    activated = set()",
  "stale gate decisions keep activating targets", "a loop whose gate is not ready when the loop state changes (signal arrives a step later)"),
 ("m11-wait-for-lt", ["C17"], "runners/_shared/helpers.py",
  "            if current_version <= consumed_version:", "            if current_version < consumed_version:",
  "a waiter may re-run without a new production", "a waiter with another changing input after it consumed the signal"),
 ("m12-no-defer-wait-for", ["C17"], "runners/_shared/helpers.py",
  "    ready = _defer_wait_for_nodes(ready, graph)", "    pass",
  "waiter scheduled in the same step as its producer", "a signal from the previous loop iteration still fresh"),
 ("m13-lru-evicts-newest", ["C09"], "cache.py",
  "            self._data.popitem(last=False)", "            self._data.popitem(last=True)",
  "LRU cache evicts the most recent entry", "a size-limited InMemoryCache at capacity"),
 ("m14-unpickle-before-hmac", ["C09"], "cache.py",
  "        expected_hmac = _compute_hmac_bytes(self._hmac_key, key, raw_bytes)\n",
  "        try:\n            pickle.loads(raw_bytes)  # noqa: S301\n        except Exception:\n            pass\n        expected_hmac = _compute_hmac_bytes(self._hmac_key, key, raw_bytes)\n",
  "payload deserialised before authentication", "a tampered disk entry"),
 ("m15-interrupt-not-isolated", ["C14"], "runners/async_/superstep.py",
  "    if interrupts:\n        ready_nodes = [interrupts[0]]", "    if interrupts and False:\n        ready_nodes = [interrupts[0]]",
  "interrupt runs concurrently with its siblings", "a sibling node ready in the interrupt's step"),
 ("m16-active-nodes-ignored-for-sources", ["C16"], "runners/_shared/helpers.py",
  "        if active_nodes is not None and node.name not in active_nodes:\n            continue",
  "        if active_nodes is not None and node.name not in active_nodes and node.inputs:\n            continue",
  "input-less nodes ignore the entry-point scope", "with_entrypoint on a graph that has a parameterless upstream node"),
 ("m17-defaults-not-copied", ["C18"], "runners/_shared/helpers.py",
  "    if source == ValueSource.DEFAULT:\n        return _safe_deepcopy(value, param_name=param)",
  "    if source == ValueSource.DEFAULT:\n        return value",
  "signature defaults shared between runs", "a function mutating a list default, run twice"),
 ("m18-bound-values-copied", ["C18"], "runners/_shared/helpers.py",
  "    if source == ValueSource.DEFAULT:\n        return _safe_deepcopy(value, param_name=param)",
  "    if source in (ValueSource.DEFAULT, ValueSource.BOUND):\n        return _safe_deepcopy(value, param_name=param)",
  "bound values deep-copied", "identity of a bound object observed inside a node"),
]
root = os.path.join(VERIF, "mutants")
os.makedirs(root, exist_ok=True)
for name, props, rel, old, new, what, needs in M:
    tmp = tempfile.mkdtemp(prefix="hgmk_", dir="/tmp")
    try:
        subprocess.run(["git", "-C", "/repo", "worktree", "add", "-q", "--detach", tmp + "/wt", "HEAD"], check=True)
        p = os.path.join(tmp, "wt", "src", "hypergraph", rel)
        s = open(p).read()
        assert old in s, (name, "old text not found")
        open(p, "w").write(s.replace(old, new, 1))
        diff = subprocess.run(["git", "-C", tmp + "/wt", "diff", "--", "src"], capture_output=True, text=True, check=True).stdout
        d = os.path.join(root, name)
        os.makedirs(d, exist_ok=True)
        open(os.path.join(d, "patch.diff"), "w").write(diff)
        json.dump({"id": name, "property": props, "detected_by": props, "what": what, "needs": needs, "origin": "hand-written during the build", "base_commit": subprocess.run(["git", "-C", "/repo", "rev-parse", "--short", "HEAD"], capture_output=True, text=True).stdout.strip()}, open(os.path.join(d, "meta.json"), "w"), indent=1)
    finally:
        subprocess.run(["git", "-C", "/repo", "worktree", "remove", "--force", tmp + "/wt"])
        shutil.rmtree(tmp, ignore_errors=True)
    print("ok", name)
