#!/venv/bin/python
"""Confirm and file a seeded change: tools/intake.py <PROPERTY> <agent-worktree> <k> [--all]

Checks, in a fresh scratch worktree of /repo HEAD: the patch applies, the pinned test suite passes with it,
the demonstration fails with it and passes without it; then runs the quick checks against it and records
which of them report a VIOLATION.  Result: /verif/seeded/<PROPERTY>-<k>/ (patch.diff, demo.py, notes.md, meta.json).
"""
import json, os, shutil, subprocess, sys, tempfile, time

VERIF = os.path.dirname(os.path.dirname(os.path.abspath(__file__)))
PY = "/venv/bin/python"
ALL = ["C01", "C02", "C03", "C04", "C05", "C09", "C10", "C11", "C12", "C13", "C14", "C15", "C16", "C17", "C18"]


def sh(cmd, **kw):
    return subprocess.run(cmd, capture_output=True, text=True, **kw)


def main():
    pid, wt, k = sys.argv[1], sys.argv[2], sys.argv[3]
    run_all = "--all" in sys.argv
    offset = int(sys.argv[sys.argv.index("--offset") + 1]) if "--offset" in sys.argv else 0
    src = os.path.join(wt, "_seeded", f"change{k}")
    for f in ("patch.diff", "demo.py"):
        if not os.path.exists(os.path.join(src, f)):
            print("MISSING", f)
            return 2
    tmp = tempfile.mkdtemp(prefix="hgintake_", dir="/tmp")
    w = os.path.join(tmp, "wt")
    meta = {"id": f"{pid}-{int(k) + offset}", "property": pid, "origin": "independent sub-agent given only the property text and a scratch worktree", "base_commit": sh(["git", "-C", "/repo", "rev-parse", "--short", "HEAD"]).stdout.strip()}
    try:
        sh(["git", "-C", "/repo", "worktree", "add", "-q", "--detach", w, "HEAD"], check=True)
        env = {**os.environ, "PYTHONPATH": os.path.join(w, "src")}
        r = sh([PY, os.path.join(src, "demo.py")], env=env, cwd=tmp, timeout=600)
        meta["demo_without_change_rc"] = r.returncode
        a = sh(["git", "-C", w, "apply", os.path.join(src, "patch.diff")])
        if a.returncode != 0:
            print("PATCH DOES NOT APPLY", a.stderr[-300:])
            return 2
        meta["files_touched"] = sh(["git", "-C", w, "diff", "--stat"]).stdout.strip().splitlines()[:-1]
        r = sh([PY, os.path.join(src, "demo.py")], env=env, cwd=tmp, timeout=600)
        meta["demo_with_change_rc"] = r.returncode
        meta["demo_with_change_output"] = (r.stdout + r.stderr)[-600:]
        t = sh([PY, "-m", "pytest", "-q", "-p", "no:cacheprovider", "--timeout=900", "-W", "ignore", "-x"], env=env, cwd=w, timeout=1800)
        meta["test_suite_with_change_rc"] = t.returncode
        meta["test_suite_tail"] = t.stdout[-200:]
        ok = meta["demo_without_change_rc"] == 0 and meta["demo_with_change_rc"] != 0 and t.returncode == 0
        meta["confirmed"] = ok
        det = {}
        order = [pid] + ([c for c in ALL if c != pid] if run_all else [])
        for c in order:
            t0 = time.time()
            q = sh([PY, os.path.join(VERIF, "check"), c, "--tier", "quick"], env={**os.environ, "HGSIM_SRC": os.path.join(w, "src"), "HGSIM_EVIDENCE_DIR": os.path.join(tmp, "ev"), "HGSIM_REPLAY_DIR": os.path.join(tmp, "rp")}, cwd=VERIF, timeout=3600)
            lines = [ln for ln in q.stdout.splitlines() if ln.startswith("VIOLATION") or ln.strip().startswith("class=")]
            det[c] = {"rc": q.returncode, "violation": q.returncode == 1, "classes": [ln.strip().split(" ")[0] for ln in lines if ln.strip().startswith("class=")][:3], "wall_s": round(time.time() - t0, 1)}
            if q.returncode == 2:
                det[c]["harness_error"] = q.stdout[-400:]
        meta["checks"] = det
        meta["detected_by"] = [c for c, d in det.items() if d["violation"]]
        dst = os.path.join(VERIF, "seeded", f"{pid}-{int(k) + offset}")
        os.makedirs(dst, exist_ok=True)
        for f in ("patch.diff", "demo.py", "notes.md"):
            if os.path.exists(os.path.join(src, f)):
                shutil.copy(os.path.join(src, f), os.path.join(dst, f))
        notes = os.path.join(src, "notes.md")
        meta["needs"] = open(notes).read()[:1500] if os.path.exists(notes) else ""
        meta["what_i_ran"] = "git apply in a fresh worktree of /repo HEAD; pytest (pinned suite) with PYTHONPATH=<wt>/src; demo.py with and without the patch; ./check <ID> --tier quick with HGSIM_SRC=<wt>/src"
        json.dump(meta, open(os.path.join(dst, "meta.json"), "w"), indent=1)
        print(json.dumps({k_: meta[k_] for k_ in ("id", "confirmed", "demo_without_change_rc", "demo_with_change_rc", "test_suite_with_change_rc", "detected_by")}))
        print({c: (d["violation"], d["classes"]) for c, d in det.items()})
    finally:
        sh(["git", "-C", "/repo", "worktree", "remove", "--force", w])
        shutil.rmtree(tmp, ignore_errors=True)
    return 0


sys.exit(main())
