#!/bin/sh
# tools/soak.sh <first-seed> <last-seed> [tier] : run every check with many VERIF_SEED values on the current tree; print anything that is not OK
cd "$(dirname "$0")/.."
tier=${3:-quick}
out=/tmp/hgsoak_$$
mkdir -p $out
for s in $(seq $1 $2); do
  for c in C01 C02 C03 C04 C05 C09 C10 C11 C12 C13 C14 C15 C16 C17 C18; do
    VERIF_SEED=$s HGSIM_EVIDENCE_DIR=$out/ev HGSIM_REPLAY_DIR=$out/rp ./check $c --tier $tier > $out/$c.$s.log 2>&1
    rc=$?
    if [ $rc -ne 0 ]; then echo "seed=$s $c rc=$rc"; grep -E "VIOLATION|class=|HARNESS" $out/$c.$s.log | head -4; fi
  done
  echo "seed $s done"
done
echo "soak finished; logs in $out"
