#!/venv/bin/python
"""Regenerate MANIFEST.json from the check modules' metadata (run from /verif)."""
import importlib
import json
import os
import sys

HERE = os.path.dirname(os.path.dirname(os.path.abspath(__file__)))
sys.path.insert(0, HERE)
import logging, warnings
logging.disable(logging.CRITICAL); warnings.simplefilter("ignore")

NA = [
    ("C06", "rename bookkeeping is a pure function of a node's rename history and call arguments; no schedule, clock, fault or interleaving exists for a simulator to control"),
    ("C07", "derivation operations are synchronous object copies; the statement quantifies over operation sequences only, nothing for a scheduler or fault injector to decide (shared-object run isolation is C18, claimed)"),
    ("C08", "the input spec is a pure function of graph configuration and rejection happens in straight-line code before any task, dispatcher or I/O exists"),
    ("C19", "constructor validation and the type-compatibility relation are pure functions; nothing executes"),
    ("C20", "visualisation is a pure data transformation of a static graph"),
]
ids = sorted(f[:-3].upper() for f in os.listdir(os.path.join(HERE, "checks")) if f.startswith("c") and f.endswith(".py") and f[1:3].isdigit())
checks = []
for i in ids:
    m = importlib.import_module("checks." + i.lower())
    if getattr(m, "DISABLED", False):
        continue
    qt = m.BUDGET["quick"][2] * 3 + 240
    tt = m.BUDGET["thorough"][2] * 3 + 600
    checks.append({
        "property_id": i,
        "quick_cmd": f"timeout {qt} ./check {i} --tier quick",
        "thorough_cmd": f"timeout {tt} ./check {i} --tier thorough",
        "evidence_file": f"/verif/evidence/{i}.json",
        "replay_cmd_template": f"./check {i} --replay {{path}}",
        "engine": "hgsim",
        "level_claimed": {"category": m.LEVEL, "text": m.LEVEL_TEXT, "design_ref": m.DESIGN_REF},
        "level_note": m.LEVEL_NOTE,
        "technique": m.TECHNIQUE,
    })
claimed = {c["property_id"] for c in checks}
man = {
    "version": 1,
    "setup_cmd": "/venv/bin/python -c \"import hypergraph, jsonschema, diskcache\" && /venv/bin/python -m compileall -q hgsim checks >/dev/null",
    "hooks": {
        "guard": "HYPERGRAPH_VERIF",
        "enable": "no source hooks exist: every seam is a public interface (event loop, CacheBackend, EventProcessor, runner subclass) or a module attribute patched from /verif at run time; checks import /repo/src directly (editable install), so they always run the current working tree",
        "baseline_off_cmd": "cd /repo && /venv/bin/python -m pytest -q -p no:cacheprovider --timeout=900",
        "source_commits": [],
        "add_only": True,
    },
    "engines": [{
        "name": "hgsim", "path": "/verif/hgsim", "serves_properties": sorted(claimed),
        "kind_free_text": "deterministic simulator: virtual-time asyncio event loop with seeded scheduling (delays, hold-open release at quiescence, ready-queue shuffle), instrumented generated programs, fault injectors (node failure, processor failure, pause/restart, cache eviction/corruption/torn write/crash), reference-model and differential oracles, shrinking, replay files",
    }],
    "checks": checks,
    "not_applicable": [{"property_id": i, "reason": r} for i, r in NA if i not in claimed],
    "notes": "Technique: deterministic simulation with fault injection (seeded search over schedules and fault sequences). See DESIGN.md. `./check selftest-determinism` and `./check selftest-mutants` prove replayability and sensitivity of the simulator itself.",
}
json.dump(man, open(os.path.join(HERE, "MANIFEST.json"), "w"), indent=1)
import jsonschema
jsonschema.validate(man, json.load(open("/root/.vp/MANIFEST.schema.json")))
print("manifest ok:", sorted(claimed))
