#!/venv/bin/python
"""Re-confirm a filed change against the CURRENT /repo HEAD: tools/reconfirm.py <seeded-dir> ...
(patch applies, pinned suite passes with it, demo fails with it and passes without it; updates meta.json)"""
import json, os, shutil, subprocess, sys, tempfile
PY = "/venv/bin/python"


def sh(cmd, **kw):
    return subprocess.run(cmd, capture_output=True, text=True, **kw)


for d in sys.argv[1:]:
    d = os.path.abspath(d)
    meta = json.load(open(os.path.join(d, "meta.json")))
    tmp = tempfile.mkdtemp(prefix="hgrc_", dir="/tmp")
    w = os.path.join(tmp, "wt")
    try:
        sh(["git", "-C", "/repo", "worktree", "add", "-q", "--detach", w, "HEAD"], check=True)
        env = {**os.environ, "PYTHONPATH": os.path.join(w, "src")}
        demo = os.path.join(d, "demo.py")
        r0 = sh([PY, demo], env=env, cwd=tmp, timeout=900)
        a = sh(["git", "-C", w, "apply", os.path.join(d, "patch.diff")])
        if a.returncode:
            print(os.path.basename(d), "PATCH DOES NOT APPLY")
            continue
        r1 = sh([PY, demo], env=env, cwd=tmp, timeout=900)
        t = sh([PY, "-m", "pytest", "-q", "-p", "no:cacheprovider", "--timeout=900", "-W", "ignore"], env=env, cwd=w, timeout=3000)
        meta.update(base_commit=sh(["git", "-C", "/repo", "rev-parse", "--short", "HEAD"]).stdout.strip(), demo_without_change_rc=r0.returncode, demo_with_change_rc=r1.returncode,
                    test_suite_with_change_rc=t.returncode, test_suite_tail=t.stdout[-200:], confirmed=(r0.returncode == 0 and r1.returncode != 0 and t.returncode == 0))
        json.dump(meta, open(os.path.join(d, "meta.json"), "w"), indent=1)
        print(os.path.basename(d), "confirmed", meta["confirmed"], "demo", r0.returncode, r1.returncode, "suite", t.returncode)
    finally:
        sh(["git", "-C", "/repo", "worktree", "remove", "--force", w])
        shutil.rmtree(tmp, ignore_errors=True)
