#!/venv/bin/python
"""Re-run checks against a filed change: tools/recheck.py <seeded-or-mutant-dir> [ID ...|--all]  (updates meta.json)"""
import json, os, shutil, subprocess, sys, tempfile, time
VERIF = os.path.dirname(os.path.dirname(os.path.abspath(__file__)))
PY = "/venv/bin/python"
ALL = ["C01", "C02", "C03", "C04", "C05", "C09", "C10", "C11", "C12", "C13", "C14", "C15", "C16", "C17", "C18"]
d = os.path.abspath(sys.argv[1])
meta = json.load(open(os.path.join(d, "meta.json")))
ids = ALL if "--all" in sys.argv else ([a for a in sys.argv[2:] if a.startswith("C")] or ([meta["property"]] if isinstance(meta["property"], str) else meta["property"]))
tmp = tempfile.mkdtemp(prefix="hgre_", dir="/tmp")
w = os.path.join(tmp, "wt")
try:
    subprocess.run(["git", "-C", "/repo", "worktree", "add", "-q", "--detach", w, "HEAD"], check=True)
    a = subprocess.run(["git", "-C", w, "apply", os.path.join(d, "patch.diff")], capture_output=True, text=True)
    if a.returncode:
        print("PATCH DOES NOT APPLY", a.stderr[-200:]); sys.exit(2)
    det = meta.get("checks", {})
    for c in ids:
        t0 = time.time()
        q = subprocess.run([PY, os.path.join(VERIF, "check"), c, "--tier", os.environ.get("RECHECK_TIER", "quick")], capture_output=True, text=True, cwd=VERIF, timeout=7200,
                           env={**os.environ, "HGSIM_SRC": os.path.join(w, "src"), "HGSIM_EVIDENCE_DIR": os.path.join(tmp, "ev"), "HGSIM_REPLAY_DIR": os.path.join(tmp, "rp")})
        classes = [ln.strip().split(" ")[0] for ln in q.stdout.splitlines() if ln.strip().startswith("class=")][:3]
        det[c] = {"rc": q.returncode, "violation": q.returncode == 1, "classes": classes, "wall_s": round(time.time() - t0, 1)}
        if q.returncode == 2:
            det[c]["harness_error"] = q.stdout[-300:]
    meta["checks"] = det
    meta["detected_by"] = [c for c, x in det.items() if x["violation"]]
    json.dump(meta, open(os.path.join(d, "meta.json"), "w"), indent=1)
    print(os.path.basename(d), "detected_by", meta["detected_by"], {c: x["classes"] for c, x in det.items() if x["violation"]}, [c for c, x in det.items() if x["rc"] == 2])
finally:
    subprocess.run(["git", "-C", "/repo", "worktree", "remove", "--force", w])
    shutil.rmtree(tmp, ignore_errors=True)
