#!/venv/bin/python
"""Print the Appendix-B table of DESIGN.md from /verif/seeded/*/meta.json and /verif/mutants/*/meta.json."""
import glob, json, os
VERIF = os.path.dirname(os.path.dirname(os.path.abspath(__file__)))
rows = []
for mp in sorted(glob.glob(os.path.join(VERIF, "seeded", "*", "meta.json"))):
    m = json.load(open(mp))
    notes = os.path.join(os.path.dirname(mp), "notes.md")
    what = ""
    if os.path.exists(notes):
        txt = [l.strip() for l in open(notes).read().splitlines() if l.strip() and not l.startswith("#")]
        what = " ".join(txt)[:230].replace("|", "/")
    files = ", ".join(x.split("|")[0].strip().replace("src/hypergraph/", "") for x in m.get("files_touched", []))
    det = m.get("detected_by") or []
    cls = "; ".join(f"{c}: {', '.join(x.replace('class=', '').split(':')[-1] for x in m['checks'][c]['classes'][:1])}" for c in det if c in m.get("checks", {}) and m["checks"][c].get("classes"))
    status = "caught by " + ", ".join(det) if det else ("outside the statement (no check should fire)" if m.get("outside_statement") else "NOT caught")
    rows.append(f"| {m['id']} | {files} | {what} | {status} | {cls} |")
print("| id | files | change (from the seeder's notes) | result | class |")
print("|---|---|---|---|---|")
print("\n".join(rows))
