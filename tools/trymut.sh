#!/bin/bash
# tools/trymut.sh <seeded-or-mutant dir name> <check id> [count]  — run one check against one recorded change in /tmp/m1
id=$1; chk=$2; cnt=${3:-}
d=/verif/seeded/$id; [ -d "$d" ] || d=/verif/mutants/$id
[ -d /tmp/m1 ] || git -C /repo worktree add -q --detach /tmp/m1 HEAD   # scratch worktree, created on demand (remove it with: git -C /repo worktree remove --force /tmp/m1)
cd /tmp/m1 && git checkout -q -- . && git checkout -q --detach "$(git -C /repo rev-parse HEAD)" && patch -p1 -s < $d/patch.diff || exit 3
cd /verif
args="--tier quick"; [ -n "$cnt" ] && args="--workers 8 --count $cnt"
HGSIM_REPLAY_DIR=/tmp/rp_try HGSIM_EVIDENCE_DIR=/tmp/ev_x HGSIM_SRC=/tmp/m1/src ./check $chk $args | tail -3
cd /tmp/m1 && git checkout -q -- .
