"""C17 — ordering signals: a waiting node runs after, and once per, each production."""

from __future__ import annotations

import copy
import random

from hgsim import gen
from hgsim.case import BuildError, completion_sig, enters, fault_counts, hist_digest, run_world, sim_stats
from hgsim.driver import empty_result
from hgsim.loops import loop_graph, loop_model
from hgsim.util import canon, digest, mix

ID = "C17"
LEVEL = "exploration"
BUDGET = {"quick": (8, 550, 90), "thorough": (16, 14000, 600)}
RULE = (
    "seeded DAGs with 1-3 emit/wait_for pairs (producers that are functions, gates and auto-resolving interrupts; waits on emitted signals and on "
    "data names; several waiters per signal) and ring loops whose gate waits on the end-of-iteration signal (emitted by the last body node, or by "
    "a separate node one step later); shuffled node lists; both runners, async under delays/ties/hold-open/ready-shuffle and max_concurrency. "
    "Safety is an ordering monitor over every execution; liveness is 'every waiter whose producers ran runs exactly once' in DAGs and the exact "
    "sequential iteration count in loops. Non-trivial = a waiter actually waited (its producer completed in an earlier step than the waiter "
    "started) or a loop ran >=2 iterations; distinct = digest of (program shape, inputs, completion order)."
    ' Also: waiters with another, later-changing input (defaulted upstream parameter; one-shot signal inside a loop), waiters with two awaited names produced at different rates; signal producers (functions, gates) that are cacheable and served from an InMemoryCache in a second run.'
)
ASSUMPTIONS = [
    "awaited names are never supplied by the caller (a supplied value legitimately satisfies the wait)",
    "no generic 're-runs within N steps of any re-production' rule is asserted (a waiter whose own inputs did not change is legitimately not re-run)",
]


def gen_dag17(rng: random.Random) -> dict:
    g = gen.gen_dag(rng, max_nodes=7, p_edge_default=0.0)
    nodes = g["nodes"]
    n = len(nodes)
    async_only = False

    def avail_before(pos: int) -> list[str]:
        return list(g["ext"]) + [o for nd in nodes[:pos] if nd["kind"] == "fn" for o in nd["outs"]]

    def param(name: str) -> dict:
        for nd in nodes:
            for q in nd.get("params", []):
                if q["name"] == name and "default" in q:
                    return {"name": name, "default": q["default"]}
        return {"name": name}

    sig_i = 0
    # function producers
    for _ in range(rng.randint(1, 3)):
        if len(nodes) < 2:
            break
        a = rng.randrange(len(nodes) - 1)
        b = rng.randrange(a + 1, len(nodes))
        if nodes[a]["kind"] not in ("fn",) or nodes[b]["kind"] not in ("fn", "route"):
            continue
        sig = f"sig{sig_i}"
        sig_i += 1
        nodes[a].setdefault("emit", []).append(sig)
        nodes[b].setdefault("wait_for", []).append(sig)
        if rng.random() < 0.4 and a + 1 < len(nodes):
            c = rng.randrange(a + 1, len(nodes))
            if c != b and nodes[c]["kind"] in ("fn", "route"):
                nodes[c].setdefault("wait_for", []).append(sig)
    # wait on a data name
    if rng.random() < 0.35 and len(nodes) >= 2:
        b = rng.randrange(1, len(nodes))
        cands = [o for nd in nodes[:b] if nd["kind"] == "fn" for o in nd["outs"] if o not in [p["name"] for p in nodes[b].get("params", [])]]
        if cands and nodes[b]["kind"] == "fn":
            nodes[b].setdefault("wait_for", []).append(rng.choice(cands))
    # a gate as producer
    if rng.random() < 0.3 and len(nodes) >= 1:
        t = rng.randrange(len(nodes))
        if nodes[t]["kind"] == "fn":
            av = avail_before(t)
            if av:
                sig = f"sig{sig_i}"
                sig_i += 1
                r_ = rng.random()
                dec = nodes[t]["name"] if r_ < 0.6 else ("@END" if r_ < 0.8 else None)  # None: no target this round - the signal is emitted all the same
                gate = {"kind": "route", "name": "gt", "params": [param(rng.choice(av))], "targets": [nodes[t]["name"], "@END"], "decide": {"op": "const", "value": dec}, "default_open": False, "emit": [sig]}
                later = [i for i in range(t, len(nodes)) if nodes[i]["kind"] == "fn"]
                w = rng.choice(later)
                nodes[w].setdefault("wait_for", []).append(sig)
                nodes.insert(t, gate)
    # an auto-resolving interrupt as producer
    if rng.random() < 0.2 and len(nodes) >= 1:
        p = rng.randrange(len(nodes))
        av = avail_before(p)
        later = [i for i in range(p, len(nodes)) if nodes[i]["kind"] == "fn"]
        if av and later:
            sig = f"sig{sig_i}"
            sig_i += 1
            w = rng.choice(later)
            nodes[w].setdefault("wait_for", []).append(sig)
            nodes.insert(p, {"kind": "interrupt", "name": "it", "params": [param(rng.choice(av))], "outs": ["itr"], "emit": [sig], "script": [], "async_handler": rng.random() < 0.5})
            async_only = True
    # a waiter with another, later-changing input: give its upstream-fed parameter a signature default when
    # it is the only consumer of that name (it then runs once with whatever is there and must NOT run again
    # when the value arrives, because the awaited name was not produced again)
    produced = {o for nd in nodes for o in nd.get("outs", [])}
    for nd in nodes:
        if nd["kind"] == "fn" and nd.get("wait_for") and rng.random() < 0.5:
            for p in nd["params"]:
                pn = p["name"]
                sole = sum(1 for n2 in nodes for q in n2.get("params", []) if q["name"] == pn) == 1
                if pn in produced and sole and pn not in nd["wait_for"]:
                    p["default"] = mix("def", pn) % 1000
    g["order"] = list(range(len(nodes)))
    rng.shuffle(g["order"])
    g["async_only"] = async_only
    return g


def gen_mutex(rng: random.Random) -> dict:
    """Two producers of ONE signal (and optionally one data name) on the exclusive branches of a gate; a node waits for the signal.
    Whichever branch runs - chosen by the gate, or entered directly through an entry point - the waiter runs once, after it."""
    return {"kind": "mutex", "pick": rng.choice(["mA", "mB"]), "entry": rng.choice([None, None, "mA", "mB"]), "data": rng.random() < 0.5, "downstream_gate": rng.random() < 0.4,
            "order_seed": rng.randrange(1 << 30), "async": [gen.gen_async_cfg(rng)]}


def _mutex_spec(doc: dict) -> dict:
    outs = ["mv"] if doc["data"] else []
    nodes = [
        {"kind": "route", "name": "mg", "params": [{"name": "mflag"}], "targets": ["mA", "mB"], "decide": {"op": "const", "value": doc["pick"]}},
        {"kind": "fn", "name": "mA", "params": [{"name": "mx"}], "outs": outs + ["ra"], "emit": ["msig"]},
        {"kind": "fn", "name": "mB", "params": [{"name": "mx"}], "outs": outs + ["rb"], "emit": ["msig"]},
        {"kind": "fn", "name": "mW", "params": [{"name": "mz"}] + ([{"name": "mv"}] if doc["data"] else []), "outs": ["mw"], "wait_for": ["msig"]},
    ]
    if doc["downstream_gate"] and doc["data"]:
        nodes += [{"kind": "route", "name": "mg2", "params": [{"name": "mv"}], "targets": ["mS", "mL"], "decide": {"op": "const", "value": "mS"}},
                  {"kind": "fn", "name": "mS", "params": [{"name": "mw"}], "outs": ["ms"]}, {"kind": "fn", "name": "mL", "params": [{"name": "mw"}], "outs": ["ml"]}]
    order = list(range(len(nodes)))
    random.Random(doc["order_seed"]).shuffle(order)
    spec = {"name": "top", "nodes": nodes, "order": order}
    if doc["entry"]:
        spec["entrypoints"] = [doc["entry"]]
    return spec


def run_mutex(doc: dict) -> dict:
    res = empty_result()
    spec = _mutex_spec(doc)
    ran = doc["entry"] or doc["pick"]
    vals = {"mx": 3, "mz": 4, "mflag": 1}
    viol: list = []
    rts = []
    try:
        for i, (mode, cfg) in enumerate([("sync", None)] + [("async", c) for c in doc["async"]]):
            w = run_world(copy.deepcopy(spec), lambda graph: {k: v for k, v in vals.items() if k in graph.inputs.all}, mode=mode, cfg=cfg)
            rts.append(w["rt"])
            res["runs"] += 1
            out = w["out"]
            tag = f"{mode}{i}[mutex]"
            if out["status"] == "raised" and out["error"] and out["error"][0] in ("MissingInputError", "ValueError", "GraphConfigError"):
                res["discard"] = "rejected_by_validation"
                res["detail"] = str(out["error"])[:200]
                return res
            if out["status"] != "completed":
                viol.append((f"{tag}:run_not_completed", {"status": out["status"], "error": out["error"]}))
                continue
            counts: dict[str, int] = {}
            for h in enters(w["rt"]):
                counts[h["n"]] = counts.get(h["n"], 0) + 1
            other = "mB" if ran == "mA" else "mA"
            if counts.get(ran, 0) != 1 or counts.get(other, 0):
                viol.append((f"{tag}:wrong_branch_ran", {"expected": ran, "counts": counts}))
                continue
            if counts.get("mW", 0) != 1:
                viol.append((f"{tag}:waiting_node_never_ran" if not counts.get("mW") else f"{tag}:node_ran_more_than_once", {"node": "mW", "times": counts.get("mW", 0), "producer_that_ran": ran, "entry": doc["entry"], "order": spec["order"]}))
            if doc["downstream_gate"] and doc["data"]:
                if counts.get("mg2", 0) != 1 or counts.get("mS", 0) != 1 or counts.get("mL", 0):
                    viol.append((f"{tag}:gate_below_the_second_producer_did_not_decide", {"counts": counts, "entry": doc["entry"], "order": spec["order"]}))
            # the waiter starts after the producer completed, never in its step
            hist = w["rt"].history
            ex = [j for j, h in enumerate(hist) if h["k"] == "exit" and h["n"] == ran]
            en = [j for j, h in enumerate(hist) if h["k"] == "enter" and h["n"] == "mW"]
            if ex and en and en[0] < ex[0]:
                viol.append((f"{tag}:waiter_started_before_producer_completed", {"producer": ran}))
    except BuildError as e:
        res["discard"] = "build_error"
        res["detail"] = str(e)[:200]
        return res
    res["violations"] = viol
    res["nontrivial"] = True
    res["stats"]["mutex_producer_cases"] = 1
    res["shape"] = digest(["mutex", doc["entry"], doc["pick"], doc["data"], doc["downstream_gate"], spec["order"]], 8)
    res["sched"] = "-"
    res["sig"] = res["shape"]
    res["hdigest"] = hist_digest(rts)
    return res


def gen_skipping(rng: random.Random) -> dict:
    """A loop whose waiter SKIPS productions: tick(c)->(c+1, s=(c+1)//2) under a gate (s changes every second tick), produce(c) emits the
    signal after every tick, consume(s) waits for it. From its second run on the waiter turns stale in the very step in which the
    producer is ready again: it must be deferred, never run beside the producer."""
    return {"kind": "skipping", "limit": rng.randint(4, 9), "order_seed": rng.randrange(1 << 30), "async": [gen.gen_async_cfg(rng)]}


def run_skipping(doc: dict) -> dict:
    from hgsim.loops import top_steps

    res = empty_result()
    nodes = [
        {"kind": "fn", "name": "sk_tick", "params": [{"name": "skc"}], "outs": ["skc", "sks"], "behs": [{"beh": "inc", "param": "skc"}, {"beh": "half_next", "param": "skc"}]},
        {"kind": "fn", "name": "sk_prod", "params": [{"name": "skc"}], "outs": ["skp"], "emit": ["sksig"]},
        {"kind": "fn", "name": "sk_cons", "params": [{"name": "sks"}], "outs": ["skw"], "wait_for": ["sksig"]},
        {"kind": "route", "name": "sk_again", "params": [{"name": "skc"}], "targets": ["sk_tick", "@END"], "decide": {"op": "lt", "param": "skc", "value": doc["limit"], "then": "sk_tick", "else": "@END"}},
    ]
    order = list(range(len(nodes)))
    random.Random(doc["order_seed"]).shuffle(order)
    spec = {"name": "top", "nodes": nodes, "order": order}
    viol: list = []
    rts = []
    together = 0
    try:
        for i, (mode, cfg) in enumerate([("sync", None)] + [("async", c) for c in doc["async"]]):
            w = run_world(copy.deepcopy(spec), {"skc": 0}, mode=mode, cfg=cfg)
            rts.append(w["rt"])
            res["runs"] += 1
            out = w["out"]
            tag = f"{mode}{i}[skipping]"
            if out["status"] != "completed":
                viol.append((f"{tag}:run_not_completed", {"status": out["status"], "error": out["error"]}))
                continue
            steps = top_steps(w["rt"])
            for si, st in enumerate(steps):
                if "sk_cons" in st["ready"] and "sk_prod" in st["ready"]:
                    viol.append((f"{tag}:waiter_started_in_the_step_of_its_producer", {"step": si, "ready": st["ready"], "order": order}))
                    break
            n_cons = len(enters(w["rt"], "sk_cons"))
            n_prod = len(enters(w["rt"], "sk_prod"))
            together += 1 if n_cons >= 2 and n_prod > n_cons else 0
            if (out["values"] or {}).get("skw") is None or n_cons < 2:
                viol.append((f"{tag}:waiting_node_never_ran", {"consume_runs": n_cons, "produce_runs": n_prod}))
    except BuildError as e:
        res["discard"] = "build_error"
        res["detail"] = str(e)[:200]
        return res
    res["violations"] = viol
    res["nontrivial"] = together > 0
    res["stats"]["waiter_that_skips_productions_cases"] = 1
    res["shape"] = digest(["skipping", doc["limit"], order], 8)
    res["sched"] = "-"
    res["sig"] = res["shape"]
    res["hdigest"] = hist_digest(rts)
    return res


def gen_case(rng: random.Random, tier: str) -> dict:
    r0 = rng.random()
    if r0 < 0.04:
        return gen_mutex(rng)
    if r0 < 0.07:
        return gen_skipping(rng)
    if rng.random() < 0.3:
        blk = gen.loop_block(rng, "L", signal=rng.random() < 0.7)
        if rng.random() < 0.5:
            # one-shot signal: 'once' is emitted a single time; the waiter's data input (the loop state) keeps changing
            blk["nodes"].append({"kind": "fn", "name": "Lonce", "params": [], "outs": [], "emit": ["Lonce_sig"]})
            waits = ["Lonce_sig"]
            if blk["signal"] and not blk.get("late") and rng.random() < 0.5:
                waits.append("Ldone")  # two awaited names produced at different rates: BOTH must be fresh for a re-run
                rng.shuffle(waits)
            blk["nodes"].append({"kind": "fn", "name": "Lw", "params": [{"name": blk["state"][0]}], "outs": ["Lwout"], "wait_for": waits})
            blk["oneshot"] = True
        for nd in blk["nodes"]:
            if nd["kind"] == "fn" and nd.get("emit") and rng.random() < 0.25:
                nd["emit_via_rename"] = True  # signal declared under a provisional name, renamed with with_outputs
        order = list(range(len(blk["nodes"])))
        rng.shuffle(order)
        return {"kind": "loop", "blk": blk, "order": order, "async": [gen.gen_async_cfg(rng) for _ in range(2)]}
    g = gen_dag17(rng)
    inp = gen.gen_inputs(rng, g, p_bind=0.0, p_omit=0.3)
    for nd in g["nodes"]:
        if nd["kind"] == "fn" and nd.get("emit") and rng.random() < 0.25:
            nd["emit_via_rename"] = True
    cached = rng.random() < 0.3
    if cached:
        # producers of signals are served from a cache in a second run: a signal is produced on every run of its producer all the same
        for nd in g["nodes"]:
            if nd["kind"] in ("fn", "route") and nd.get("emit") and rng.random() < 0.8:
                nd["cache"] = True
    return {"kind": "dag", "graph": g, "inputs": inp, "async": [gen.gen_async_cfg(rng) for _ in range(2)], "cached": cached}


# ------------------------------------------------------------------ monitor
def tables(g: dict):
    producers: dict[str, list[str]] = {}
    waits: dict[str, list[str]] = {}
    for nd in g["nodes"]:
        for o in list(nd.get("outs", [])) + list(nd.get("emit", [])):
            producers.setdefault(o, []).append(nd["name"])
        if nd.get("wait_for"):
            waits[nd["name"]] = list(nd["wait_for"])
    return producers, waits


def check_ordering(rt, g: dict) -> tuple[list, dict]:
    producers, waits = tables(g)
    prod_of: dict[str, list[str]] = {}
    for name, ps in producers.items():
        for p in ps:
            prod_of.setdefault(p, []).append(name)
    viol: list = []
    done: dict[tuple, int] = {}
    done_step: dict[tuple, int] = {}
    inflight: dict[str, set] = {}
    last_seen: dict[tuple, int] = {}
    step_no: dict[str, int] = {}
    probes = {"waiter_started_after_waiting": 0, "waiter_starts": 0}
    for h in rt.history:
        k = h["k"]
        R = h.get("r")
        if k == "step_begin":
            step_no[R] = step_no.get(R, 0) + 1
            ready = h.get("ready") or []
            for W in ready:
                for name in waits.get(W, []):
                    both = [p for p in producers.get(name, []) if p in ready and p != W]
                    if both:
                        viol.append(("waiter_scheduled_in_the_step_of_its_producer", {"waiter": W, "name": name, "producers": both}))
        elif k == "enter":
            n = h["n"]
            for name in waits.get(n, []):
                probes["waiter_starts"] += 1
                d = done.get((R, name), 0)
                if d == 0:
                    viol.append(("waiter_started_before_any_producer_completed", {"waiter": n, "name": name}))
                fl = [p for p in producers.get(name, []) if p in inflight.get(R, set())]
                if fl:
                    viol.append(("waiter_started_while_producer_in_flight", {"waiter": n, "name": name, "producers": fl}))
                prev = last_seen.get((R, n, name))
                if prev is not None and d <= prev:
                    viol.append(("waiter_reran_without_new_production", {"waiter": n, "name": name, "productions": d}))
                last_seen[(R, n, name)] = d
                if d and done_step.get((R, name), 0) < step_no.get(R, 0):
                    probes["waiter_started_after_waiting"] += 1
            if n in prod_of:
                inflight.setdefault(R, set()).add(n)
        elif k in ("exit", "raise", "cancelled"):
            n = h.get("n")
            if n in prod_of:
                inflight.get(R, set()).discard(n)
                if k == "exit":
                    for name in prod_of[n]:
                        done[(R, name)] = done.get((R, name), 0) + 1
                        done_step[(R, name)] = step_no.get(R, 0)
    return viol, probes


def expected_runs(g: dict) -> dict[str, bool]:
    """DAG liveness model: which nodes must run (exactly once)."""
    producers, waits = tables(g)
    ran: dict[str, bool] = {}
    have: set[str] = set(g["ext"])
    gated: dict[str, bool] = {}
    for nd in g["nodes"]:  # topological by construction
        name = nd["name"]
        ok = all(p["name"] in have or "default" in p for p in nd.get("params", []))
        ok = ok and all(w in have for w in nd.get("wait_for", []))
        if name in gated and not gated[name]:
            ok = False
        ran[name] = ok
        if not ok:
            continue
        if nd["kind"] == "route":
            dec = nd["decide"]["value"]
            for t in nd["targets"]:
                if t != "@END":
                    gated[t] = dec == t
        have.update(nd.get("outs", []))
        have.update(nd.get("emit", []))
    return ran


def run_case(doc: dict) -> dict:
    if doc["kind"] == "mutex":
        return run_mutex(doc)
    if doc["kind"] == "skipping":
        return run_skipping(doc)
    if doc["kind"] == "loop":
        return _run_loop(doc)
    res = empty_result()
    g = doc["graph"]
    inp = doc["inputs"]
    viol: list = []
    rts = []
    sigs = []
    waited = 0

    def values(graph):
        prov = {k: v for k, v in inp["provide"].items() if k not in inp["omit"]}
        for r in graph.inputs.required:
            if r not in prov:
                prov[r] = inp["provide"].get(r, 13)
        return prov

    plans = ([] if g.get("async_only") else [("sync", None)]) + [("async", c) for c in doc["async"]]
    exp = expected_runs(g)
    try:
        for i, (mode, cfg) in enumerate(plans):
            w = run_world(g, values, mode=mode, cfg=cfg)
            rts.append(w["rt"])
            res["runs"] += 1
            sim_stats(res, w["out"])
            fault_counts(w["rt"], res["stats"])
            out = w["out"]
            tag = f"{mode}{i}"
            if out["status"] == "raised" and out["error"] and out["error"][0] in ("MissingInputError", "ValueError", "IncompatibleRunnerError"):
                res["discard"] = "rejected_by_validation"
                return res
            v, probes = check_ordering(w["rt"], g)
            viol += [(f"{tag}:{c}", d) for c, d in v]
            waited += probes["waiter_started_after_waiting"]
            for k_, n_ in probes.items():
                res["stats"]["probe_" + k_] = res["stats"].get("probe_" + k_, 0) + n_
            if out["status"] != "completed":
                viol.append((f"{tag}:run_not_completed", {"status": out["status"], "error": out["error"]}))
                continue
            counts: dict[str, int] = {}
            for h in enters(w["rt"]):
                counts[h["n"]] = counts.get(h["n"], 0) + 1
            for nd in g["nodes"]:
                c = counts.get(nd["name"], 0)
                if exp[nd["name"]] and c != 1:
                    cls = "waiting_node_never_ran" if (c == 0 and nd.get("wait_for")) else ("node_never_ran" if c == 0 else "node_ran_more_than_once")
                    viol.append((f"{tag}:{cls}", {"node": nd["name"], "times": c, "wait_for": nd.get("wait_for")}))
                if not exp[nd["name"]] and c:
                    viol.append((f"{tag}:node_ran_although_a_dependency_never_ran", {"node": nd["name"], "times": c}))
            from hypergraph.nodes.base import _EMIT_SENTINEL

            leaked = [k for k, v in (out["values"] or {}).items() if v is _EMIT_SENTINEL or k.startswith("sig")]
            if leaked:
                viol.append((f"{tag}:signal_leaked_into_result", {"keys": leaked}))
            sigs.append(completion_sig(w["rt"]))
        if doc.get("cached") and not viol:
            _cached_second_run(doc, g, values, exp, plans, res, rts, viol)
    except BuildError:
        res["discard"] = "build_error"
        return res
    res["violations"] = viol
    res["nontrivial"] = waited > 0
    res["shape"] = gen.shape_of(g)
    res["sched"] = digest(sigs, 6)
    res["sig"] = digest([res["shape"], canon(inp), res["sched"]], 8)
    res["hdigest"] = hist_digest(rts)
    return res


def _cached_second_run(doc, g, values, exp, plans, res, rts, viol) -> None:
    """Two runs on one InMemoryCache: in the second, cacheable producers are cache hits; their signals are produced all the same."""
    from hypergraph import InMemoryCache

    cacheable = {nd["name"] for nd in g["nodes"] if nd.get("cache")}
    if not cacheable:
        return
    for i, (mode, cfg) in enumerate(plans[:2]):
        cache = InMemoryCache()
        outs = []
        for run in (1, 2):
            w = run_world(g, values, mode=mode, cfg=cfg, cache=cache)
            rts.append(w["rt"])
            res["runs"] += 1
            outs.append(w)
        w1, w2 = outs
        tag = f"{mode}{i}:second_run_on_cache"
        if w1["out"]["status"] != "completed" or w2["out"]["status"] != "completed":
            viol.append((f"{tag}:not_completed", {"first": w1["out"]["status"], "second": w2["out"]["status"], "error": w2["out"]["error"] or w1["out"]["error"]}))
            continue
        counts: dict[str, int] = {}
        for h in enters(w2["rt"]):
            counts[h["n"]] = counts.get(h["n"], 0) + 1
        hits = sum(1 for n in cacheable if exp[n] and counts.get(n, 0) == 0)
        res["stats"]["probe_signal_producer_served_from_cache"] = res["stats"].get("probe_signal_producer_served_from_cache", 0) + hits
        for nd in g["nodes"]:
            if nd["name"] in cacheable:
                continue
            c = counts.get(nd["name"], 0)
            if exp[nd["name"]] and c != 1:
                cls = "waiting_node_never_ran" if (c == 0 and nd.get("wait_for")) else ("node_never_ran" if c == 0 else "node_ran_more_than_once")
                viol.append((f"{tag}:{cls}", {"node": nd["name"], "times": c, "wait_for": nd.get("wait_for"), "cacheable": sorted(cacheable)}))
            if not exp[nd["name"]] and c:
                viol.append((f"{tag}:node_ran_although_a_dependency_never_ran", {"node": nd["name"], "times": c}))
        if canon(w1["out"]["values"]) != canon(w2["out"]["values"]):
            viol.append((f"{tag}:values_differ_from_first_run", {"first": w1["out"]["values"], "second": w2["out"]["values"]}))


def _run_loop(doc: dict) -> dict:
    from checks.c04 import _judge, _p

    res = empty_result()
    blk = doc["blk"]
    g = loop_graph(blk, doc["order"], name="loop")
    viol: list = []
    rts = []
    sigs = []
    vals = {blk["seed"]: 0}
    if blk.get("gate_late"):
        vals[f"{blk['prefix']}budget"] = 5
    kw = {"entrypoint": f"{blk['prefix']}b0"}
    d4 = {"nested": False}
    try:
        plans = [("sync", None)] + [("async", c) for c in doc["async"]]
        for i, (mode, cfg) in enumerate(plans):
            w = run_world(g, vals, mode=mode, cfg=cfg, run_kwargs=dict(kw))
            rts.append(w["rt"])
            res["runs"] += 1
            sim_stats(res, w["out"])
            fault_counts(w["rt"], res["stats"])
            tag = f"{mode}{i}"
            if w["out"]["status"] == "raised" and w["out"]["error"] and w["out"]["error"][0] in ("MissingInputError", "ValueError"):
                # entry point b0 not listed for this shape: enter without naming it
                w = run_world(g, vals, mode=mode, cfg=cfg)
                rts.append(w["rt"])
            _judge(d4, blk, 0, w, tag, viol)
            if blk.get("oneshot") and w["out"]["status"] == "completed":
                nw = len(enters(w["rt"], "Lw"))
                if nw != 1:
                    viol.append((f"{tag}:one_shot_waiter_ran_wrong_number_of_times", {"times": nw, "blk": _p(blk)}))
            v, probes = check_ordering(w["rt"], g)
            viol += [(f"{tag}:{c}", d) for c, d in v]
            for k_, n_ in probes.items():
                res["stats"]["probe_" + k_] = res["stats"].get("probe_" + k_, 0) + n_
            if w["out"]["status"] in ("deadlock", "step_cap"):
                viol.append((f"{tag}:{w['out']['status']}", {"blk": _p(blk)}))
            sigs.append(completion_sig(w["rt"]))
    except BuildError:
        res["discard"] = "build_error"
        return res
    exp = loop_model(blk, 0)
    res["violations"] = viol
    res["nontrivial"] = sum(exp["body_counts"]) >= 2 * blk["L"]
    res["shape"] = digest(["loop", _p(blk)], 8)
    res["sched"] = digest(sigs, 6)
    res["sig"] = digest([res["shape"], doc["order"], res["sched"]], 8)
    res["hdigest"] = hist_digest(rts)
    res["stats"]["cases_signal_loop"] = 1
    return res


def shrink_candidates(doc: dict):
    if doc["kind"] == "skipping":
        if doc["limit"] > 4:
            yield dict(doc, limit=doc["limit"] - 1)
        if doc["order_seed"]:
            yield dict(doc, order_seed=0)
        return
    if doc["kind"] == "mutex":
        for k, v in (("downstream_gate", False), ("data", False), ("order_seed", 0)):
            if doc.get(k) != v:
                yield dict(doc, **{k: v})
        return
    simple = {"schedule": {"mode": "delay", "seed": 0, "choices": [0], "delays": {}}, "shuffle": None, "max_concurrency": None}
    if doc["kind"] == "loop":
        from checks.c04 import shrink_candidates as sc4

        if doc["blk"].get("oneshot"):
            c = copy.deepcopy(doc)
            c["blk"]["nodes"] = [n for n in c["blk"]["nodes"] if n["name"] not in ("Lonce", "Lw")]
            c["blk"]["oneshot"] = False
            c["order"] = list(range(len(c["blk"]["nodes"])))
            yield c
            return
        for c in sc4(dict(doc, nested=False)):
            c["kind"] = "loop"
            yield c
        return
    g = doc["graph"]
    for i in reversed(range(len(g["nodes"]))):
        c = copy.deepcopy(doc)
        removed = c["graph"]["nodes"].pop(i)
        c["graph"]["order"] = [j if j < i else j - 1 for j in c["graph"]["order"] if j != i]
        gone = set(removed.get("emit", []))
        for o in removed.get("outs", []):
            c["graph"]["ext"].append(o)
            c["inputs"]["provide"].setdefault(o, 7)
        for nd in c["graph"]["nodes"]:
            if nd.get("wait_for"):
                nd["wait_for"] = [w for w in nd["wait_for"] if w not in gone and w not in removed.get("outs", [])]
            if nd["kind"] == "route" and removed["name"] in nd["targets"]:
                nd["targets"] = [t for t in nd["targets"] if t != removed["name"]]
                if nd["decide"]["value"] == removed["name"]:
                    nd["decide"]["value"] = "@END"
        if removed["kind"] == "interrupt":
            c["graph"]["async_only"] = False
        yield c
    for i, nd in enumerate(g["nodes"]):
        for key in ("wait_for", "emit"):
            for x in nd.get(key, []):
                c = copy.deepcopy(doc)
                c["graph"]["nodes"][i][key].remove(x)
                if key == "emit":
                    for n2 in c["graph"]["nodes"]:
                        if x in n2.get("wait_for", []):
                            n2["wait_for"].remove(x)
                yield c
        for pi in range(len(nd.get("params", []))):
            c = copy.deepcopy(doc)
            del c["graph"]["nodes"][i]["params"][pi]
            yield c
    if g["order"] != sorted(g["order"]):
        c = copy.deepcopy(doc)
        c["graph"]["order"] = sorted(g["order"])
        yield c
    if len(doc["async"]) > 1:
        for i in range(len(doc["async"])):
            c = copy.deepcopy(doc)
            del c["async"][i]
            yield c
    for i, a in enumerate(doc["async"]):
        if a != simple:
            c = copy.deepcopy(doc)
            c["async"][i] = simple
            yield c


def signature(doc: dict, cls: str, detail) -> str:
    return cls.split(":", 1)[-1]


def sample_repr(doc: dict, res: dict):
    if doc["kind"] == "skipping":
        return {"template": "loop whose waiter skips every other production of the signal", "limit": doc["limit"]}
    if doc["kind"] == "mutex":
        return {"template": "two producers of one signal on exclusive gate branches, one waiter", **{k: doc[k] for k in ("pick", "entry", "data", "downstream_gate")}}
    if doc["kind"] == "loop":
        from checks.c04 import _p

        return {"loop": _p(doc["blk"]), "order": doc["order"]}
    return {"nodes": [[n["kind"], n["name"], [p["name"] for p in n.get("params", [])], n.get("outs", []), {"emit": n.get("emit"), "wait_for": n.get("wait_for")}] for n in doc["graph"]["nodes"]],
            "order": doc["graph"]["order"], "inputs": doc["inputs"]}


LEVEL_TEXT = (
    "Seeded exploration with an ordering monitor over every simulated execution: a waiter may start only after a producer of each awaited name "
    "completed in that run, never while such a producer is in flight or scheduled in the same step, and again only after a new production; "
    "liveness is checked as bounded progress: in DAGs every waiter whose producers ran runs exactly once before quiescence, and signal-"
    "synchronised loops reach exactly the sequential iteration count (the simulator reports a stalled loop as a wrong count, never waits on it)."
)
LEVEL_NOTE = "Trusts check_ordering/expected_runs in checks/c17.py, hgsim/loops.py:loop_model, and the step tap for the same-step rule."
TECHNIQUE = "deterministic simulation; online-style ordering monitor (safety) + bounded-step progress against a sequential loop model (liveness)"
DESIGN_REF = "DESIGN.md §4 C17"
