"""C13 — observers cannot alter execution (processor failure at every event index)."""

from __future__ import annotations

import copy
import random

from hgsim import gen
from hgsim.case import BuildError, fault_counts, fill_values, hist_digest, invocations, run_world, sim_stats
from hgsim.driver import empty_result
from hgsim.procs import AsyncProc, SyncProc, canon_events, span_tree, with_identity
from hgsim.util import canon, digest

ID = "C13"
LEVEL = "fault_enumeration"
BUDGET = {"quick": (8, 70, 90), "thorough": (16, 700, 600)}
RULE = (
    "seeded general programs, top-level run and map, both runners; a run with two healthy recorders gives the event count n; then a failing "
    "processor is injected for every event index k<n (all k up to 60 in the thorough tier; up to 14 spread indices in the quick tier) as a sync "
    "processor, an async processor raising before its internal yield and one raising after it, plus fail-on-every-event and fail-at-shutdown, "
    "placed before or after a healthy recorder. Non-trivial = the failing processor actually raised; distinct = digest of (program shape, "
    "runner, failure index, variant, placement)."
    ' The injected node failure (if any) is of one of five kinds incl. an exception without arguments. Processor objects are plain, unhashable (__eq__ without __hash__) or all-equal; the top-level map may be over an empty list. Cache dimension: cache-enabled runner, cacheable synchronous-bodied nodes and duplicate map items (a suspending processor must not decide whether a duplicate is a cache hit). Interpreter configuration: RuntimeWarning promoted to an error for all runs of a case; node functions drawing from the process-wide random module, seeded identically before every run.'
)
ASSUMPTIONS = [
    "healthy recorder's stream is compared exactly (canonical ids) for the sync runner and as a canonical span tree for the async runner, where a yielding failing processor may legitimately shift the interleaving of concurrent siblings",
]


def gen_case(rng: random.Random, tier: str) -> dict:
    g = gen.gen_program(rng, max_nodes=5, depth=2, feats={**gen.gen_feats(rng), "gens": rng.random() < 0.3})
    inp = gen.program_inputs(rng, g, list_len=(0, 3))
    fns = gen.fn_nodes(g)
    faults = []
    if fns and rng.random() < 0.35:
        nd, _d = rng.choice(fns)
        faults.append({"kind": "raise", "node": nd["name"], "inv": 0, "when": rng.choice(["before", "after"]), "fid": 0, "exc": rng.choice(gen.EXC_KINDS)})
    from hgsim.spec import iter_nodes as _iter_nodes

    for nd, _d, _p in _iter_nodes(g):
        # decisions whose payload is unusual for the event builders: a multi-target gate answering None / [] every time
        if nd["kind"] == "route" and nd.get("multi") and not nd.get("blk") and rng.random() < 0.5:
            nd["decide"] = {"op": "const", "value": rng.choice([None, None, []])}
    ext = [e for e in g["ext"] if e not in g["lists"]]
    cfg = gen.gen_async_cfg(rng, allow_hold=False)
    cfg["shuffle"] = None
    for nd, _d in fns:
        nd["_c13_cacheable"] = rng.random() < 0.7
    if fns and rng.random() < 0.25:
        # a node drawing from the process-wide random module; the check seeds it identically before every run of the case
        cand = [nd for nd, _d in fns if nd.get("outs") and not nd.get("beh") and not nd.get("gen")]
        if cand:
            rng.choice(cand)["beh"] = "globalrand"
    bounded_raise = bool(faults) and rng.random() < 0.5  # raise-mode map over a worker pool (max_concurrency 2) with a failing item
    return {
        "graph": g,
        "inputs": inp,
        "faults": faults,
        "error_handling": "raise" if bounded_raise else rng.choice(["raise", "continue"]),
        "max_iterations": rng.choice([None, 5]) if g["seeds"] else None,
        "async": dict(cfg, max_concurrency=2) if bounded_raise else cfg,
        "top_map": rng.choice(ext) if (ext and not g["seeds"] and rng.random() < (0.7 if bounded_raise else 0.25)) else None,
        "top_map_n": rng.randint(3, 5) if bounded_raise else rng.randint(0, 3),  # 0: a map over an empty list (no item runs, no events)
        # cache-enabled runner (a fresh InMemoryCache per execution), cacheable nodes with synchronous bodies and DUPLICATE map items:
        # whether a duplicate is served from the cache must not depend on whether a processor suspends while it is notified
        "cache": rng.random() < 0.3,
        "warn_errors": rng.random() < 0.25,  # RuntimeWarning promoted to an error for every run of the case (with and without processors)
        "proc_identity": rng.choice(["plain", "plain", "unhashable", "equal"]),  # processors are ordinary objects: may be unhashable or compare equal
        "tier": tier,
        "plan_seed": rng.randrange(1 << 30),
        "only": None,
    }


def _summary(w: dict) -> list:
    out = w["out"]
    if out["status"] == "list":
        return ["list", [[it["status"], canon(it["values"]), it["error"]] for it in out["items"]], invocations(w["rt"])]
    return [out["status"], canon(out["values"]), out["error"], invocations(w["rt"])]


def run_case(doc: dict) -> dict:
    res = empty_result()
    g = doc["graph"]
    tier = doc.get("tier", "quick")
    base_values = fill_values(doc["inputs"], keep=g.get("seeds", []))
    op = "run"
    kw = {"error_handling": doc["error_handling"]}
    if doc.get("max_iterations"):
        kw["max_iterations"] = doc["max_iterations"]
    values = base_values
    if doc.get("top_map"):
        op = "map"
        mp = doc["top_map"]
        kw = {"error_handling": doc["error_handling"], "map_over": mp}

        def values(graph, _b=base_values, _mp=mp):  # noqa: F811
            v = _b(graph)
            b0 = v.get(_mp, 5)
            dup = 2 if doc.get("cache") else 1  # duplicate items when the cache dimension is on
            v[_mp] = [(b0 + j // dup) if isinstance(b0, int) else j // dup for j in range(doc["top_map_n"])]
            return v

    faults = doc.get("faults") or []
    viol: list = []
    rts = []
    sigs = []
    fired_any = False
    rng = random.Random(doc["plan_seed"])
    ident = doc.get("proc_identity", "plain")

    use_cache = bool(doc.get("cache"))
    if use_cache:
        from hypergraph import InMemoryCache
        from hgsim.spec import iter_nodes

        g = copy.deepcopy(g)
        for nd, _d, _p in iter_nodes(g):
            if nd.get("_c13_cacheable") and nd["kind"] == "fn" and not nd.get("gen"):
                nd["cache"] = True

    def _seed_global_random(rt, graph, comp):
        import random as _random

        _random.seed(20261001)

    g_async = g
    if any(nd.get("beh") == "globalrand" for nd, _d in gen.fn_nodes(g)):
        # (only under the sync runner: with concurrently running nodes the ORDER of the draws is a race that processors may shift)
        g_async = copy.deepcopy(g)
        for nd, _d in gen.fn_nodes(g_async):
            if nd.get("beh") == "globalrand":
                nd.pop("beh")

    def world(mode, procs_factory=None):
        w = run_world(g if mode == "sync" else g_async, values, mode=("async_syncfn" if (use_cache and mode == "async") else mode), cfg=doc["async"] if mode == "async" else None, cache=InMemoryCache() if use_cache else None, warn_errors=bool(doc.get("warn_errors")), prepare=_seed_global_random, faults=copy.deepcopy(faults), run_kwargs=dict(kw), op=op, processors_factory=procs_factory)
        rts.append(w["rt"])
        res["runs"] += 1
        sim_stats(res, w["out"])
        fault_counts(w["rt"], res["stats"])
        return w

    try:
        for mode in ("sync", "async"):
            base = _summary(world(mode))
            if base[0] == "raised" and base[2] and base[2][0] in ("MissingInputError", "ValueError", "IncompatibleRunnerError", "KeyError"):
                res["discard"] = "rejected_by_validation"
                return res
            box: dict = {}

            def healthy(rt, _box=box):
                _box["p"] = [with_identity(AsyncProc(rt, "h_async"), ident), with_identity(SyncProc(rt, "h_sync"), ident)]
                return _box["p"]

            wh = world(mode, healthy)
            if _summary(wh) != base:
                viol.append((f"{mode}:healthy_processors_changed_the_run", {"base": base[:3], "with": _summary(wh)[:3]}))
            h0 = box["p"][1]
            n = len(h0.events)
            ref_seq = canon_events(h0.events)
            ref_tree = span_tree(h0.events)
            if doc.get("only") is not None:
                plans = [tuple(p) for p in doc["only"] if p[0] == mode]
                plans = [(p[1], p[2], p[3]) for p in plans]
            else:
                if tier == "thorough":
                    ks = list(range(min(n, 60)))
                else:
                    ks = list(range(n)) if n <= 14 else sorted(set([0, 1, n - 1, n - 2] + rng.sample(range(n), 10)))
                variants = ["sync", "async_before"] + (["async_after"] if mode == "async" else [])
                plans = []
                for j, k in enumerate(ks):
                    vs = variants if tier == "thorough" else [variants[(j + k) % len(variants)]]
                    for vname in vs:
                        plans.append((k, vname, "first" if (j + len(vname)) % 2 == 0 else "last"))
                plans += [("all", variants[rng.randrange(len(variants))], "first"), ("shutdown", variants[rng.randrange(len(variants))], "last"), ("shutdown", "sync", "first")]
            for k, vname, place in plans:
                pbox: dict = {}

                def factory(rt, _k=k, _v=vname, _pl=place, _b=pbox, _m=mode):
                    if _v == "sync":
                        bad = SyncProc(rt, "bad", fail_at=_k)
                    else:
                        bad = AsyncProc(rt, "bad", fail_at=_k, yield_seed=doc["plan_seed"] if _v == "async_after" else None, fail_phase="after" if _v == "async_after" else "before")
                    # (every other async recorder genuinely SUSPENDS while it handles an event: it must still see every event, in order)
                    good = AsyncProc(rt, "good", yield_seed=(doc["plan_seed"] ^ 0x5A5A) if (_m == "async" and _k % 4 == 1) else None) if (isinstance(_k, int) and _k % 2) else SyncProc(rt, "good")
                    bad, good = with_identity(bad, ident), with_identity(good, ident)
                    _b["bad"], _b["good"] = bad, good
                    return [bad, good] if _pl == "first" else [good, bad]

                w = world(mode, factory)
                bad, good = pbox["bad"], pbox["good"]
                point = [mode, k, vname, place]
                if bad.fired:
                    fired_any = True
                    sigs.append(digest(point, 6))
                    res["stats"]["fault_processor_raise"] = res["stats"].get("fault_processor_raise", 0) + bad.fired
                else:
                    res["stats"]["processor_fault_not_reached"] = res["stats"].get("processor_fault_not_reached", 0) + 1
                s = _summary(w)
                if s != base:
                    what = "status_or_values_or_error" if s[:3] != base[:3] else "node_invocations"
                    det = {"point": point, "base": base[:3], "with": s[:3]}
                    if what == "node_invocations":
                        bi, wi = [tuple(x) for x in base[-1]], [tuple(x) for x in s[-1]]
                        det["only_without_processors"] = sorted(set(bi) - set(wi))[:4] + ([["(multiset)"]] if not (set(bi) - set(wi)) and len(bi) > len(wi) else [])
                        det["only_with_processors"] = sorted(set(wi) - set(bi))[:4]
                        det["superset"] = all(bi.count(x) <= wi.count(x) for x in set(bi))
                    viol.append((f"{mode}:failing_processor_changed_{what}", det))
                if w["out"]["status"] in ("deadlock", "step_cap"):
                    viol.append((f"{mode}:run_did_not_terminate_with_failing_processor", {"point": point, "status": w["out"]["status"]}))
                known_shift = (mode == "async" and s[-1] != base[-1] and doc.get("top_map") and doc.get("error_handling") == "raise" and doc.get("faults")
                               and (doc.get("async") or {}).get("max_concurrency") is not None)
                if known_shift:
                    pass  # (known finding: other items were started; the stream then describes another set of item runs)
                elif mode == "sync":
                    if canon_events(good.events) != ref_seq:
                        viol.append((f"{mode}:healthy_processor_stream_incomplete_or_changed", {"point": point, "n_ref": n, "n_got": len(good.events)}))
                else:
                    if use_cache:
                        # which of two concurrently running duplicates is the miss and which the hit is a race the processors may
                        # legitimately shift: the stream must be complete (same events by kind and node), not identically placed
                        kinds = sorted((type(e).__name__, getattr(e, "node_name", None)) for e in good.events)
                        same = kinds == sorted((type(e).__name__, getattr(e, "node_name", None)) for e in h0.events)
                    else:
                        same = len(good.events) == n and span_tree(good.events) == ref_tree
                    if not same:
                        viol.append((f"{mode}:healthy_processor_stream_incomplete_or_changed", {"point": point, "n_ref": n, "n_got": len(good.events)}))
                exp_sd = 1 if n > 0 else 0
                if good.shutdowns != exp_sd and not (n == 0 and good.shutdowns == 1):  # whether an empty map shuts processors down is not C13's business
                    viol.append((f"{mode}:healthy_processor_shutdown_count", {"point": point, "shutdowns": good.shutdowns, "expected": exp_sd}))
    except BuildError:
        res["discard"] = "build_error"
        return res
    res["violations"] = viol
    res["nontrivial"] = fired_any
    res["shape"] = gen.shape_of(g)
    res["sched"] = digest(sorted(set(sigs)), 6)
    res["sig"] = digest([res["shape"], canon(doc["inputs"]), canon(faults), res["sched"]], 8)
    res["hdigest"] = hist_digest(rts)
    return res


def narrow(doc: dict, cls: str, detail) -> dict | None:
    pt = (detail or {}).get("point") if isinstance(detail, dict) else None
    if pt:
        c = copy.deepcopy(doc)
        c["only"] = [list(pt)]
        return c
    return None


def shrink_candidates(doc: dict):
    from checks.c02 import shrink_program

    if doc.get("only") is None:
        return
    yield from shrink_program(doc)
    for key, val in (("top_map", None), ("max_iterations", None), ("proc_identity", "plain"), ("cache", False), ("warn_errors", False)):
        if doc.get(key) and doc.get(key) != val:
            c = copy.deepcopy(doc)
            c[key] = val
            yield c
    if doc["only"] and isinstance(doc["only"][0][1], int) and doc["only"][0][1] > 0:
        c = copy.deepcopy(doc)
        c["only"][0][1] -= 1
        yield c


def signature(doc: dict, cls: str, detail) -> str:
    base = cls.split(":", 1)[-1]
    if (base == "failing_processor_changed_node_invocations" and cls.startswith("async") and doc.get("top_map") and doc.get("error_handling") == "raise" and doc.get("faults")
            and (doc.get("async") or {}).get("max_concurrency") is not None):
        # raise-mode map over a worker pool: the stop flag is set only after the failing item's events were delivered; a processor that
        # suspends meanwhile shifts which other items the workers start (more of them, or fewer) before the map stops
        return "bounded_raise_mode_map_items_started_depend_on_processor_suspension"
    return base


def sample_repr(doc: dict, res: dict):
    from checks.c02 import sample_repr as sr

    d = dict(doc, sweep=False, **{"async": [doc["async"]]})
    out = sr(d, res)
    out["processor_faults"] = "every event index k (sync / async-before-yield / async-after-yield), every event, shutdown; before and after a healthy recorder"
    return out


LEVEL_TEXT = (
    "Fault enumeration inside the simulator: for every generated execution the event count n is learned from a healthy run, then a processor "
    "that raises is injected at every event index (bounded as stated), at every event and at shutdown, as sync and async processor (raising "
    "before and after a suspension point), before and after a healthy recorder; run outcome and node invocations must equal the "
    "processor-free run and the healthy recorder must still receive the complete stream and exactly one shutdown."
)
LEVEL_NOTE = "Per program the index enumeration is complete up to the caps; programs are sampled. Differential oracle against the same run without processors."
TECHNIQUE = "deterministic simulation with exhaustive event-processor failure injection per execution; with/without-processor differential"
DESIGN_REF = "DESIGN.md §4 C13"
