"""C04 — loops run exactly as many iterations as the gate dictates and always terminate."""

from __future__ import annotations

import copy
import random

from hgsim import gen
from hgsim.case import BuildError, completion_sig, fault_counts, hist_digest, run_world, sim_stats
from hgsim.driver import empty_result
from hgsim.loops import count_invocations, loop_graph, loop_model, top_steps
from hgsim.util import canon, digest

ID = "C04"
LEVEL = "exploration"
BUDGET = {"quick": (8, 200, 90), "thorough": (16, 5000, 600)}
RULE = (
    "seeded ring-loop templates: body length 1-4, route or if/else gate, exit via END or an exit node, iteration count N in 0..6, open or closed "
    "gate, gate reading the loop state directly or synchronised on a signal emitted by the last body node (do-while), self-accumulating single-node "
    "body, loop wrapped as a graph node inside a DAG; entry at EVERY entry point the graph lists; max_iterations swept over 0..S+1 where S is the "
    "number of steps of the unbounded run; both runners, async under delays/ties/hold-open. Oracle: the equivalent sequential while/do-while "
    "program. Non-trivial = the loop ran >=2 iterations or max_iterations cut it short; distinct = digest of (template parameters, entry, schedule)."
    ' Gate kinds now include multi-target route gates; the late-signal template (signal emitted by a separate node one step after the state change) is included.'
)
ASSUMPTIONS = [
    "excluded configuration: a closed-by-default gate that waits on a signal only its own targets can emit (nothing can start; DESIGN C04)",
    "an exit node behind an open, signal-synchronised gate may legitimately run once early with the seed value; only its final value is compared",
]


def gen_chat(rng: random.Random) -> dict:
    """A gate-driven loop in which TWO ungated accumulators produce the same value (cmsgs): ask -> add_query -> generate -> add_response,
    add_response also counts the turns, and the gate 'cont' routes back to ask while the count is below the limit."""
    nodes = [
        {"kind": "fn", "name": "cask", "params": [{"name": "cn"}], "outs": ["cq"]},
        {"kind": "fn", "name": "caddq", "params": [{"name": "cmsgs"}, {"name": "cq"}], "outs": ["cmsgs"], "beh": "append", "beh_param": "cmsgs"},
        {"kind": "fn", "name": "cgen", "params": [{"name": "cq"}], "outs": ["cr"]},
        # (the two producers of cmsgs are ordered through the data path caddr -> cn -> cask -> cq -> caddq)
        {"kind": "fn", "name": "caddr", "params": [{"name": "cmsgs"}, {"name": "cr"}, {"name": "cn"}], "outs": ["cmsgs", "cn"], "behs": [{"beh": "append", "param": "cmsgs"}, {"beh": "inc", "param": "cn"}]},
    ]
    limit = rng.randint(0, 4)
    nodes.append({"kind": "route", "name": "ccont", "params": [{"name": "cn"}], "targets": ["cask", "@END"], "default_open": rng.random() < 0.5,
                  "decide": {"op": "lt", "param": "cn", "value": limit, "then": "cask", "else": "@END"}})
    order = list(range(len(nodes)))
    rng.shuffle(order)
    return {"kind": "chat", "limit": limit, "nodes": nodes, "order": order, "async": [gen.gen_async_cfg(rng) for _ in range(2)]}


def chat_model(doc: dict) -> dict:
    from hgsim.util import canon, mix

    msgs: list = []
    n = 0
    counts = {k: 0 for k in ("cask", "caddq", "cgen", "caddr")}
    while n < doc["limit"]:
        q = mix("cask", 0, [("cn", canon(n))])
        counts["cask"] += 1
        msgs = msgs + [mix("caddq", "app", [("cq", canon(q))])]
        counts["caddq"] += 1
        r = mix("cgen", 0, [("cq", canon(q))])
        counts["cgen"] += 1
        msgs = msgs + [mix("caddr", "app", [("cn", canon(n)), ("cr", canon(r))])]
        counts["caddr"] += 1
        n += 1
    return {"cmsgs": msgs, "cn": n, "counts": counts, "gate": doc["limit"] + 1}


def run_chat(doc: dict) -> dict:
    res = empty_result()
    g = {"name": "chat", "nodes": doc["nodes"], "order": doc["order"], "ext": [], "lists": [], "seeds": ["cmsgs", "cn"]}
    exp = chat_model(doc)
    viol: list = []
    rts = []
    sigs = []
    try:
        for i, (mode, cfg) in enumerate([("sync", None)] + [("async", c) for c in doc["async"]]):
            w = run_world(g, {"cmsgs": [], "cn": 0}, mode=mode, cfg=cfg, run_kwargs={"max_iterations": 60, "error_handling": "continue"})
            rts.append(w["rt"])
            res["runs"] += 1
            sim_stats(res, w["out"])
            out = w["out"]
            tag = f"{mode}{i}[chat]"
            if out["status"] == "raised" and out["error"] and out["error"][0] in ("GraphConfigError", "ValueError", "MissingInputError"):
                res["discard"] = "chat_template_rejected"
                return res
            if out["status"] != "completed":
                viol.append((f"{tag}:loop_run_not_completed", {"status": out["status"], "error": out["error"], "limit": doc["limit"]}))
                continue
            counts = {k: 0 for k in exp["counts"]}
            gate = 0
            for h in w["rt"].history:
                if h["k"] == "enter":
                    if h["n"] in counts:
                        counts[h["n"]] += 1
                    elif h["n"] == "ccont":
                        gate += 1
            if counts != exp["counts"]:
                viol.append((f"{tag}:body_execution_count_differs_from_sequential_loop", {"got": counts, "expected": exp["counts"], "limit": doc["limit"]}))
            elif gate != exp["gate"]:
                viol.append((f"{tag}:gate_evaluations_differ_from_sequential_loop", {"got": gate, "expected": exp["gate"]}))
            vals = out["values"] or {}
            if doc["limit"] > 0 and (vals.get("cmsgs") != exp["cmsgs"] or vals.get("cn") != exp["cn"]):
                viol.append((f"{tag}:final_values_differ_from_sequential_loop", {"got": {"cmsgs": vals.get("cmsgs"), "cn": vals.get("cn")}, "expected": {"cmsgs": exp["cmsgs"], "cn": exp["cn"]}}))
            sigs.append(completion_sig(w["rt"]))
    except BuildError:
        res["discard"] = "build_error"
        return res
    res["violations"] = viol
    res["nontrivial"] = doc["limit"] >= 2
    res["stats"]["chat_template_cases"] = 1
    res["shape"] = digest(["chat", doc["limit"], doc["order"]], 8)
    res["sched"] = digest(sigs, 6)
    res["sig"] = digest([res["shape"], res["sched"]], 8)
    res["hdigest"] = hist_digest(rts)
    return res


def gen_gate2(rng: random.Random) -> dict:
    """A cycle with two levels of gating: g2a(count) routes to the gate g2b or END, g2b(count) routes to the body or END, the body
    increments count. Every trip makes BOTH gates stale; the outcome must be the sequential loop's for every order of the node list."""
    return {"kind": "gate2", "limit": rng.randint(0, 3), "outer_limit": rng.choice([5, 10]), "open_a": rng.random() < 0.5, "open_b": rng.random() < 0.5, "cfg": gen.gen_async_cfg(rng)}


def run_gate2(doc: dict) -> dict:
    import itertools

    res = empty_result()
    n = doc["limit"]
    nodes = [
        {"kind": "fn", "name": "g2s", "params": [{"name": "g2c"}], "outs": ["g2c"], "beh": "inc", "beh_param": "g2c"},
        {"kind": "route", "name": "g2a", "params": [{"name": "g2c"}], "targets": ["g2b", "@END"], "default_open": doc["open_a"], "decide": {"op": "lt", "param": "g2c", "value": doc["outer_limit"], "then": "g2b", "else": "@END"}},
        {"kind": "route", "name": "g2b", "params": [{"name": "g2c"}], "targets": ["g2s", "@END"], "default_open": doc["open_b"], "decide": {"op": "lt", "param": "g2c", "value": n, "then": "g2s", "else": "@END"}},
    ]
    viol: list = []
    rts = []
    seen: dict = {}
    try:
        for order in itertools.permutations(range(3)):
            g = {"name": "gate2", "nodes": nodes, "order": list(order), "ext": [], "lists": [], "seeds": ["g2c"]}
            for mode, cfg in (("sync", None), ("async", doc["cfg"])):
                w = run_world(g, {"g2c": 0}, mode=mode, cfg=cfg, run_kwargs={"max_iterations": 60, "error_handling": "continue"})
                rts.append(w["rt"])
                res["runs"] += 1
                out = w["out"]
                if out["status"] == "raised" and out["error"] and out["error"][0] in ("GraphConfigError", "ValueError", "MissingInputError"):
                    res["discard"] = "gate2_template_rejected"
                    return res
                body = sum(1 for h in w["rt"].history if h["k"] == "enter" and h["n"] == "g2s")
                seen[(tuple(order), mode)] = [out["status"], canon(out["values"]), out["error"] and out["error"][0], body]
        ref = seen[((0, 1, 2), "sync")]
        # with both gates closed by default the loop is the sequential while-loop: exactly `limit` body executions
        if not doc["open_a"] and not doc["open_b"] and (ref[0] != "completed" or ref[3] != n):
            viol.append(("sync[gate2]:body_execution_count_differs_from_sequential_loop", {"got": ref, "expected_body_runs": n}))
        diff = {f"{k[1]}{list(k[0])}": v for k, v in seen.items() if v != ref}
        if diff:
            viol.append(("gate2:outcome_depends_on_node_order_or_runner", {"reference(sync,[0,1,2])": ref, "others": dict(list(diff.items())[:3])}))
    except BuildError:
        res["discard"] = "build_error"
        return res
    res["violations"] = viol
    res["nontrivial"] = n >= 2
    res["stats"]["gate2_template_cases"] = 1
    res["shape"] = digest(["gate2", n, doc["outer_limit"], doc["open_a"], doc["open_b"]], 8)
    res["sched"] = digest(canon(doc["cfg"]), 6)
    res["sig"] = digest([res["shape"], res["sched"]], 8)
    res["hdigest"] = hist_digest(rts)
    return res


def gen_case(rng: random.Random, tier: str) -> dict:
    r0 = rng.random()
    if r0 < 0.08:
        return gen_gate2(rng)
    if r0 < 0.18:
        return gen_chat(rng)
    blk = gen.loop_block(rng, "L")
    nested = rng.random() < 0.25
    if nested:
        blk = gen.loop_block(rng, "L", L=1)
    order = list(range(len(blk["nodes"])))
    rng.shuffle(order)
    return {"blk": blk, "order": order, "nested": nested, "async": [gen.gen_async_cfg(rng) for _ in range(2)], "tier": tier,
            "api": {"decorators": rng.random() < 0.35, "explicit_edges": rng.random() < 0.2, "wrap_async": False, "rename_emit": rng.random() < 0.3}}


def _graph(doc: dict) -> dict:
    blk = doc["blk"]
    g = gen.with_api(loop_graph(blk, doc["order"], name="loop"), doc.get("api"))
    if not doc.get("nested"):
        return g
    outs = [blk["state"][0]] + (["Lout"] if blk["exit"] else [])
    post = {"kind": "fn", "name": "post", "params": [{"name": outs[-1]}], "outs": ["z"]}
    pre = {"kind": "fn", "name": "pre", "params": [{"name": "x"}], "outs": ["y"]}
    return {"name": "top", "nodes": [pre, {"kind": "graph", "name": "loop", "graph": g}, post], "order": [0, 1, 2], "ext": ["x"], "lists": [], "seeds": [blk["seed"]]}


def _entries(graph, blk: dict) -> list[tuple[str, int, dict]]:
    pfx = blk["prefix"]
    out = []
    eps = dict(graph.inputs.entrypoints)
    for name in sorted(eps):
        if name.startswith(f"{pfx}b") and name[len(pfx) + 1 :].isdigit():
            i = int(name[len(pfx) + 1 :])
            if (blk.get("late") or blk.get("gate_late")) and i != 0:
                continue  # late-signal / late-gate templates: only the canonical entry is modelled
            vals = {p: 0 for p in eps[name]}
            if blk.get("gate_late"):
                vals[f"{pfx}budget"] = 5
            out.append((name, i, vals))
    return out


def _judge(doc, blk, entry_i, w, tag, viol, exp=None) -> None:
    out, rt = w["out"], w["rt"]
    exp = exp or loop_model(blk, entry_i)
    pfx = blk["prefix"]
    if out["status"] != "completed":
        viol.append((f"{tag}:loop_run_not_completed", {"status": out["status"], "error": out["error"], "blk": _p(blk), "entry": entry_i}))
        return
    got = count_invocations(rt, blk)
    vals = out["values"]
    s0 = f"{pfx}s0"
    final = vals.get(s0) if not doc.get("nested") else vals.get(s0)
    if got["body_counts"] != exp["body_counts"]:
        viol.append((f"{tag}:body_execution_count_differs_from_sequential_loop", {"got": got["body_counts"], "model": exp["body_counts"], "blk": _p(blk), "entry": entry_i}))
    elif final != exp["s"]:
        viol.append((f"{tag}:final_loop_value_differs", {"got": final, "model": exp["s"], "blk": _p(blk), "entry": entry_i}))
    elif got["gate_evals"] != exp["gate_evals"] and not blk.get("late") and not blk.get("gate_late"):
        viol.append((f"{tag}:gate_evaluation_count_differs", {"got": got["gate_evals"], "model": exp["gate_evals"], "blk": _p(blk), "entry": entry_i}))
    if blk["exit"]:
        if vals.get(f"{pfx}out") != exp["exit_value"]:
            viol.append((f"{tag}:exit_node_value_differs", {"got": vals.get(f"{pfx}out"), "model": exp["exit_value"], "blk": _p(blk)}))
        allowed = {1, 2} if (blk["signal"] and blk["open"]) else {1}
        if blk.get("late") or blk.get("gate_late"):
            allowed = {1, 2}
        if got["fin"] not in allowed:
            viol.append((f"{tag}:exit_node_ran_wrong_number_of_times", {"got": got["fin"], "allowed": sorted(allowed), "blk": _p(blk)}))


def _p(blk: dict) -> dict:
    return {k: blk.get(k) for k in ("L", "N", "gate", "exit", "signal", "open", "late", "gate_late")}


def run_case(doc: dict) -> dict:
    if doc.get("kind") == "chat":
        return run_chat(doc)
    if doc.get("kind") == "gate2":
        return run_gate2(doc)
    res = empty_result()
    blk = doc["blk"]
    g = _graph(doc)
    viol: list = []
    rts = []
    sigs = []
    nontrivial = False
    try:
        seedvals = {blk["seed"]: 0}
        if blk.get("gate_late"):
            seedvals[f"{blk['prefix']}budget"] = 5
        probe = run_world(g, dict(seedvals, x=1) if doc.get("nested") else dict(seedvals), mode="sync")
        rts.append(probe["rt"])
        if blk.get("gate_late") and not doc.get("nested") and probe["out"]["status"] == "completed":
            # the same graph with a graph-level entry point at the node that feeds the gate's late input: everything is downstream of it
            # (the body only through the gate's control edge), so the run must equal the run without entry-point configuration
            g_ep = dict(g, entrypoints=[f"{blk['prefix']}plan"])
            for mode_ep in ("sync", "async"):
                try:
                    wep = run_world(g_ep, dict(seedvals), mode=mode_ep, cfg=doc["async"][0] if mode_ep == "async" else None)
                except BuildError:
                    break
                rts.append(wep["rt"])
                res["runs"] += 1
                res["stats"]["probe_graph_level_entry_point_upstream_of_the_gate"] = 1
                a_, b_ = [probe["out"]["status"], canon(probe["out"]["values"]), count_invocations(probe["rt"], blk)], [wep["out"]["status"], canon(wep["out"]["values"]), count_invocations(wep["rt"], blk)]
                if a_ != b_ and not (wep["out"]["status"] == "raised" and wep["out"]["error"] and wep["out"]["error"][0] in ("MissingInputError", "ValueError", "GraphConfigError")):
                    viol.append((f"{mode_ep}[with_entrypoint(plan)]:run_differs_from_unscoped_run", {"unscoped": a_, "scoped": b_, "error": wep["out"]["error"], "blk": _p(blk)}))
        if doc.get("nested"):
            entries = [(None, 0, dict(seedvals, x=1))]
        else:
            entries = _entries(probe["graph"], blk)
            if not entries:
                res["discard"] = "no_body_entry_point_listed"
                return res
        for ename, ei, vals in entries:
            kw = {"entrypoint": ename} if ename else {}
            ws = run_world(g, vals, mode="sync", run_kwargs=dict(kw))
            rts.append(ws["rt"])
            res["runs"] += 1
            _judge(doc, blk, ei, ws, f"sync[{ename}]", viol)
            exp = loop_model(blk, ei)
            if sum(exp["body_counts"]) >= 2 * blk["L"]:
                nontrivial = True
            steps = top_steps(ws["rt"])
            S = len(steps)
            for i, cfg in enumerate(doc["async"]):
                wa = run_world(g, vals, mode="async", cfg=cfg, run_kwargs=dict(kw))
                rts.append(wa["rt"])
                res["runs"] += 1
                sim_stats(res, wa["out"])
                fault_counts(wa["rt"], res["stats"])
                _judge(doc, blk, ei, wa, f"async{i}[{ename}]", viol)
                if wa["out"]["status"] in ("deadlock", "step_cap"):
                    viol.append((f"async{i}:{wa['out']['status']}", {"blk": _p(blk)}))
                sigs.append(completion_sig(wa["rt"]))
            if doc.get("nested") or ws["out"]["status"] != "completed" or not getattr(ws["rt"], "tap_active", False):
                continue
            # bounded liveness: never more than max_iterations steps; cut-off reports the values so far
            emits = {e for nd in blk["nodes"] for e in nd.get("emit", [])}
            outs = {o for nd in blk["nodes"] for o in nd.get("outs", [])} - emits
            for m in range(0, S + 2):
                mode = "sync" if m % 2 else "async"
                wm = run_world(g, vals, mode=mode, cfg=doc["async"][0] if mode == "async" else None, run_kwargs=dict(kw, max_iterations=m, error_handling="continue"))
                rts.append(wm["rt"])
                res["runs"] += 1
                sim_stats(res, wm["out"])
                om = wm["out"]
                n_steps = len(top_steps(wm["rt"]))
                tag = f"{mode}[{ename}]max_iterations={m}"
                if n_steps > m:
                    viol.append((f"{tag}:more_steps_than_max_iterations", {"steps": n_steps, "m": m, "blk": _p(blk)}))
                if m == 0:
                    # a budget of zero steps: nothing may execute (InfiniteLoopError at once, or the value is rejected)
                    if S >= 1 and not ((om["status"] == "failed" and om["error"] and om["error"][0] == "InfiniteLoopError") or (om["status"] == "raised" and om["error"] and om["error"][0] in ("ValueError", "InfiniteLoopError"))):
                        viol.append((f"{tag}:zero_step_budget_not_enforced", {"status": om["status"], "error": om["error"], "steps": n_steps}))
                    continue
                if m >= S:
                    if om["status"] != "completed" or canon(om["values"]) != canon(ws["out"]["values"]):
                        viol.append((f"{tag}:bounded_run_differs_from_unbounded", {"status": om["status"], "error": om["error"], "S": S, "blk": _p(blk)}))
                else:
                    nontrivial = True
                    res["stats"]["probe_max_iterations_cut_short"] = res["stats"].get("probe_max_iterations_cut_short", 0) + 1
                    if om["status"] != "failed" or not om["error"] or om["error"][0] != "InfiniteLoopError":
                        viol.append((f"{tag}:no_infinite_loop_error_when_cut_short", {"status": om["status"], "error": om["error"], "S": S, "blk": _p(blk)}))
                    else:
                        ref_vals = steps[m - 1]["vals"] or {}
                        from hypergraph.nodes.base import _EMIT_SENTINEL

                        expv = {k: v for k, v in ref_vals.items() if k in outs and v is not _EMIT_SENTINEL}
                        if canon(om["values"]) != canon(expv):
                            viol.append((f"{tag}:partial_values_differ_from_values_after_step_m", {"got": om["values"], "expected": expv, "blk": _p(blk)}))
    except BuildError as e:
        res["discard"] = "build_error"
        return res
    res["violations"] = viol
    res["nontrivial"] = nontrivial
    res["shape"] = digest([_p(blk), doc.get("nested")], 8)
    res["sched"] = digest(sigs, 6)
    res["sig"] = digest([res["shape"], doc["order"], res["sched"]], 8)
    res["hdigest"] = hist_digest(rts)
    if blk["signal"]:
        res["stats"]["cases_signal_synchronised_gate"] = 1
    if doc.get("nested"):
        res["stats"]["cases_loop_nested_in_dag"] = 1
    return res


def shrink_candidates(doc: dict):
    import random as _r

    if doc.get("kind") == "gate2":
        if doc["limit"] > 1:
            yield dict(doc, limit=doc["limit"] - 1)
        return
    if doc.get("kind") == "chat":
        if doc["limit"] > 1:
            c = copy.deepcopy(doc)
            c["limit"] -= 1
            c["nodes"][-1]["decide"]["value"] = c["limit"]
            yield c
        if len(doc["async"]) > 1:
            c = copy.deepcopy(doc)
            c["async"] = doc["async"][:1]
            yield c
        return

    blk = doc["blk"]
    params = _p(blk)
    trials = []
    if blk["L"] > 1:
        trials.append(dict(params, L=blk["L"] - 1))
    if blk["N"] > 0:
        trials.append(dict(params, N=blk["N"] - 1))
    if blk["exit"]:
        trials.append(dict(params, exit=False))
    if blk["signal"]:
        trials.append(dict(params, signal=False))
    if blk["gate"] == "ifelse":
        trials.append(dict(params, gate="route"))
    for t in trials:
        c = copy.deepcopy(doc)
        c["blk"] = gen.loop_block(_r.Random(0), "L", L=t["L"], N=t["N"], gate=t["gate"], exit_node=t["exit"], signal=t["signal"], default_open=t["open"], late=bool(t.get("late")), gate_late=bool(t.get("gate_late")))
        c["order"] = list(range(len(c["blk"]["nodes"])))
        yield c
    if doc.get("nested"):
        c = copy.deepcopy(doc)
        c["nested"] = False
        yield c
    if doc["order"] != sorted(doc["order"]):
        c = copy.deepcopy(doc)
        c["order"] = sorted(doc["order"])
        yield c
    if len(doc["async"]) > 1:
        c = copy.deepcopy(doc)
        c["async"] = doc["async"][:1]
        yield c
    simple = {"schedule": {"mode": "delay", "seed": 0, "choices": [0], "delays": {}}, "shuffle": None, "max_concurrency": None}
    for i, a in enumerate(doc["async"]):
        if a != simple:
            c = copy.deepcopy(doc)
            c["async"][i] = simple
            yield c


def signature(doc: dict, cls: str, detail) -> str:
    base = cls.split(":", 1)[-1]
    return base


def sample_repr(doc: dict, res: dict):
    if doc.get("kind") == "gate2":
        return {"template": "two-level gated cycle, all 6 node orders x both runners", "limit": doc["limit"], "open": [doc["open_a"], doc["open_b"]]}
    if doc.get("kind") == "chat":
        return {"template": "chat loop: two ungated accumulators of one value, tick, gate cont", "limit": doc["limit"], "node_order": doc["order"]}
    return {"template": _p(doc["blk"]), "nested_in_dag": doc.get("nested"), "node_order": doc["order"], "entries": "every body entry point listed by graph.inputs.entrypoints", "max_iterations": "0..S+1",
            "schedules": [{"mode": a["schedule"]["mode"], "k": a["max_concurrency"]} for a in doc["async"]]}


LEVEL_TEXT = (
    "Seeded exploration of loop shapes x entry points x max_iterations x schedules, each compared exactly (body execution counts per node, gate "
    "evaluations, final values) with the equivalent sequential while/do-while program written in the harness from the same generated functions; "
    "bounded liveness is checked as steps <= max_iterations, InfiniteLoopError with the values after step m when cut short, identical result when "
    "m >= S, and the simulator's own step cap and deadlock detector never firing."
)
LEVEL_NOTE = "Trusts hgsim/loops.py:loop_model and the step tap for step counting / per-step values."
TECHNIQUE = "deterministic simulation; sequential while-loop reference model + bounded-step liveness"
DESIGN_REF = "DESIGN.md §4 C04"
