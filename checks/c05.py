"""C05 — composition: a nested graph behaves exactly like its nodes inlined (flat-vs-nested differential)."""

from __future__ import annotations

import copy
import random

from hgsim import gen
from hgsim.case import BuildError, completion_sig, enters, fault_counts, hist_digest, run_world, sim_stats
from hgsim.driver import empty_result
from hgsim.util import canon, digest, mix

ID = "C05"
LEVEL = "exploration"
BUDGET = {"quick": (8, 650, 90), "thorough": (16, 16000, 600)}
RULE = (
    "seeded random DAGs (as C01); a random convex node subset (closed under paths between its members) is wrapped as Graph(...).as_node(), "
    "recursively to depth 3; bound values are moved onto the inner graph (and kept on the outer graph when the name is also used outside); "
    "wrapper inputs/outputs are renamed - fresh names, chains through a temporary name, parallel swaps - with the rest of the graph "
    "alpha-renamed to match (through rename_inputs/output names, function parameters untouched); optional inner select. Flat and nested "
    "variants run on SyncRunner and on AsyncRunner under SimLoop (delays, max_concurrency: inner nodes compete for the same permits). "
    "Non-trivial = the cut crosses >=1 data edge or the group has a default/bound input; distinct = digest of (program shape, cut, renames, inputs)."
    ' Also varied: the wrapper object is introspected / placed in a throw-away graph before it is renamed (object reuse), and the inner graph binds another value than the enclosing graph for the same name (the enclosing binding must win, as in the flat graph); the nested variant built with explicit edges= (one declaration per node pair or one per value) against the name-inferred flat graph; outputs whose value is None/falsy.'
)
ASSUMPTIONS = [
    "a nested variant the constructor rejects is discarded and counted (not judged): C19 owns constructor verdicts",
    "input sets are compared as sets, modulo the applied renames",
]


def _reach(nodes: list[dict]) -> list[set[int]]:
    prod = {o: i for i, nd in enumerate(nodes) for o in nd["outs"]}
    anc: list[set[int]] = [set() for _ in nodes]
    for i, nd in enumerate(nodes):
        for p in nd["params"]:
            j = prod.get(p["name"])
            if j is not None:
                anc[i] |= {j} | anc[j]
    return anc


def convex_subset(rng: random.Random, nodes: list[dict]) -> list[int]:
    n = len(nodes)
    k = rng.randint(1, n)
    S = set(rng.sample(range(n), k))
    anc = _reach(nodes)
    lo, hi = min(S), max(S)
    for x in range(lo, hi + 1):
        if x in S:
            continue
        below = any(u in anc[x] for u in S)  # some member is an ancestor of x
        above = any(x in anc[v] for v in S)  # x is an ancestor of some member
        if below and above:
            S.add(x)
    # adding nodes can create new in-between nodes: iterate to a fixed point
    changed = True
    while changed:
        changed = False
        for x in range(n):
            if x in S:
                continue
            if any(u in anc[x] for u in S) and any(x in anc[v] for v in S):
                S.add(x)
                changed = True
    return sorted(S)


def gen_signal_cut(rng: random.Random) -> dict:
    """The cut runs along an ORDERING edge: the producer of a signal is wrapped, the node waiting for it stays outside."""
    return {"kind": "signal_cut", "depth": rng.choice([1, 1, 2]), "with_data_edge": rng.random() < 0.5, "async": [gen.gen_async_cfg(rng, allow_hold=False)]}


def run_signal_cut(doc: dict) -> dict:
    res = empty_result()
    p_node = {"kind": "fn", "name": "sp", "params": [{"name": "sx"}], "outs": ["spy"], "emit": ["ssg"]}
    w_params = [{"name": "sz"}] + ([{"name": "spy"}] if doc.get("with_data_edge") else [])
    w_node = {"kind": "fn", "name": "sw", "params": w_params, "outs": ["swq"], "wait_for": ["ssg"]}
    flat = {"name": "top", "nodes": [p_node, w_node], "order": [0, 1]}
    inner: dict = {"kind": "graph", "name": "SG0", "graph": {"name": "SG0", "nodes": [copy.deepcopy(p_node)], "order": [0]}}
    if doc.get("depth") == 2:
        inner = {"kind": "graph", "name": "SG1", "graph": {"name": "SG1", "nodes": [inner], "order": [0]}}
    nested = {"name": "top", "nodes": [inner, copy.deepcopy(w_node)], "order": [0, 1]}
    vals = {"sx": 3, "sz": 4}
    viol: list = []
    rts = []
    try:
        for i, (mode, cfg) in enumerate([("sync", None)] + [("async", c) for c in doc["async"]]):
            wf = run_world(flat, dict(vals), mode=mode, cfg=cfg)
            try:
                wn = run_world(nested, dict(vals), mode=mode, cfg=cfg)
            except BuildError:
                res["discard"] = "nested_variant_rejected_by_constructor"
                return res
            rts += [wf["rt"], wn["rt"]]
            res["runs"] += 2
            fo, no = wf["out"], wn["out"]
            tag = f"{mode}{i}[signal_cut]"
            if fo["status"] != "completed":
                res["discard"] = "flat_signal_program_not_completed"
                return res
            if no["status"] == "completed" and "swq" in (fo["values"] or {}) and "swq" not in (no["values"] or {}) and not [h for h in enters(wn["rt"]) if h["n"] == "sw"]:
                viol.append((f"{tag}:signal_emitted_inside_nested_graph_does_not_reach_outer_waiter", {"flat": fo["values"], "nested": no["values"], "depth": doc.get("depth")}))
            elif no["status"] != fo["status"] or canon(no["values"]) != canon(fo["values"]):
                viol.append((f"{tag}:values_differ_from_flat", {"flat": [fo["status"], fo["values"]], "nested": [no["status"], no["values"], no["error"]]}))
    except BuildError:
        res["discard"] = "build_error"
        return res
    res["violations"] = viol
    res["nontrivial"] = True
    res["stats"]["signal_cut_cases"] = 1
    res["shape"] = digest(["signal_cut", doc.get("depth"), doc.get("with_data_edge")], 8)
    res["sched"] = "-"
    res["sig"] = res["shape"]
    res["hdigest"] = hist_digest(rts)
    return res


def run_bound_echo(doc: dict) -> dict:
    """An inner graph entered below its first node (with_entrypoint) whose upstream value is supplied by its OWN binding: that value
    is an input and an output of the nested graph at once. Whatever the inner graph returns when run directly, the wrapper exposes."""
    res = empty_result()
    inner = {"name": "EI", "nodes": [{"kind": "fn", "name": "ea", "params": [{"name": "ex"}], "outs": ["ep"]}, {"kind": "fn", "name": "eb", "params": [{"name": "ep"}], "outs": ["eq"]}],
             "order": [0, 1], "entrypoints": ["eb"], "bind": {"ep": doc["value"]}}
    ren = {"ep": "ep_out"} if doc.get("rename") else {}
    outer = {"name": "top", "nodes": [{"kind": "graph", "name": "EI", "graph": inner, "renames": [{"outputs": ren}] if ren else []},
                                      {"kind": "fn", "name": "ec", "params": [{"name": ren.get("ep", "ep")}, {"name": "eq"}], "outs": ["er"]}], "order": [0, 1]}
    viol: list = []
    rts = []
    try:
        for mode in ("sync", "async"):
            wd = run_world(copy.deepcopy(inner), {}, mode=mode, cfg=doc["cfg"] if mode == "async" else None)
            wn = run_world(copy.deepcopy(outer), {}, mode=mode, cfg=doc["cfg"] if mode == "async" else None)
            rts += [wd["rt"], wn["rt"]]
            res["runs"] += 2
            d, n = wd["out"], wn["out"]
            if n["status"] == "raised" and n["error"] and n["error"][0] in ("ValueError", "GraphConfigError", "MissingInputError"):
                res["discard"] = "nested_variant_rejected_by_validation"
                return res
            if d["status"] != "completed":
                res["discard"] = "inner_graph_run_not_completed"
                return res
            # the wrapper lists ep among its outputs and the outer node consumes it: the value the inner graph was given for ep (its own
            # binding) is what the wrapper exposes, next to everything the inner run returns
            exposed = {ren.get(k, k): v for k, v in (d["values"] or {}).items()}
            exposed[ren.get("ep", "ep")] = doc["value"]
            got = n["values"] or {}
            wrong = sorted(k for k, v in exposed.items() if k not in got or canon(got[k]) != canon(v))
            if n["status"] != "completed" or wrong or "er" not in got:
                viol.append((f"{mode}[bound_echo]:wrapper_does_not_expose_an_output_of_the_inner_graph", {"expected": exposed, "nested": [n["status"], got, n["error"]], "wrong_or_missing": wrong, "consumer_ran": "er" in got}))
    except BuildError:
        res["discard"] = "build_error"
        return res
    res["violations"] = viol
    res["nontrivial"] = True
    res["stats"]["bound_echo_cases"] = 1
    res["shape"] = digest(["bound_echo", doc.get("rename")], 8)
    res["sched"] = "-"
    res["sig"] = res["shape"]
    res["hdigest"] = hist_digest(rts)
    return res


def run_private_binding(doc: dict) -> dict:
    """The inner graph binds a name its SELECTED part does not need; the wrapper renames a needed input onto that very name.
    The binding is private to the inner graph: the wrapper's input stays required, exactly as in the inlined graph."""
    res = empty_result()
    inner = {"name": "PI", "nodes": [{"kind": "fn", "name": "pf", "params": [{"name": "px"}], "outs": ["pp"]}, {"kind": "fn", "name": "pg", "params": [{"name": "pk"}], "outs": ["pq"]}],
             "order": [0, 1], "bind": {"pk": doc["value"]}, "select": ["pp"]}
    wrapper = {"kind": "graph", "name": "PI", "graph": inner, "renames": [{"inputs": {"px": "pk"}}]}
    nested = {"name": "top", "nodes": [wrapper], "order": [0]}
    if doc.get("depth") == 2:
        nested = {"name": "top", "nodes": [{"kind": "graph", "name": "PM", "graph": dict(nested, name="PM")}], "order": [0]}
    flat = {"name": "top", "nodes": [{"kind": "fn", "name": "pf", "params": [{"name": "px"}], "outs": ["pp"], "rename_inputs": {"px": "pk"}}], "order": [0]}
    viol: list = []
    rts = []
    try:
        for mode in ("sync", "async"):
            for vals in ({}, {"pk": doc["value"] + 5}):
                cfg = doc["cfg"] if mode == "async" else None
                wf = run_world(copy.deepcopy(flat), dict(vals), mode=mode, cfg=cfg)
                wn = run_world(copy.deepcopy(nested), dict(vals), mode=mode, cfg=cfg)
                rts += [wf["rt"], wn["rt"]]
                res["runs"] += 2
                fo, no = wf["out"], wn["out"]
                tag = f"{mode}[private_binding,{'supplied' if vals else 'omitted'}]"
                f_rej = fo["status"] == "raised" and fo["error"] and fo["error"][0] == "MissingInputError"
                n_rej = no["status"] == "raised" and no["error"] and no["error"][0] == "MissingInputError"
                if f_rej != n_rej:
                    viol.append((f"{tag}:input_required_in_one_variant_only", {"flat": [fo["status"], fo["values"], fo["error"]], "nested": [no["status"], no["values"], no["error"]]}))
                elif not f_rej and (no["status"] != fo["status"] or canon(no["values"]) != canon(fo["values"])):
                    viol.append((f"{tag}:values_differ_from_flat", {"flat": [fo["status"], fo["values"]], "nested": [no["status"], no["values"], no["error"]]}))
    except BuildError:
        res["discard"] = "build_error"
        return res
    res["violations"] = viol
    res["nontrivial"] = True
    res["stats"]["private_binding_cases"] = 1
    res["shape"] = digest(["private_binding", doc.get("depth")], 8)
    res["sched"] = "-"
    res["sig"] = res["shape"]
    res["hdigest"] = hist_digest(rts)
    return res


def gen_case(rng: random.Random, tier: str) -> dict:
    r0 = rng.random()
    if r0 < 0.01:
        return {"kind": "private_binding", "value": rng.randint(1, 9), "depth": rng.choice([1, 2]), "cfg": gen.gen_async_cfg(rng, allow_hold=False)}
    if r0 < 0.02:
        return {"kind": "bound_echo", "value": rng.randint(1, 9), "rename": True, "cfg": gen.gen_async_cfg(rng, allow_hold=False)}
    if r0 < 0.05:
        return gen_signal_cut(rng)
    g = gen.gen_dag(rng, max_nodes=10 if tier == "thorough" else 8, p_edge_default=0.08)
    inp = gen.gen_inputs(rng, g)
    if rng.random() < 0.25:
        gen.odd_input_names(rng, g, inp)  # inputs whose names look like runner options: select, max_iterations, values ...
    cuts = []
    nodes = g["nodes"]
    # recursive cuts: each is a list of node names; deeper cuts are subsets of the previous one
    names = [nd["name"] for nd in nodes]
    cur = list(range(len(nodes)))
    depth = rng.choice([1, 1, 2, 3])
    cur_nodes = nodes
    for _d in range(depth):
        if not cur_nodes:
            break
        sub = convex_subset(rng, cur_nodes)
        cut = [cur_nodes[i]["name"] for i in sub]
        cuts.append(cut)
        cur_nodes = [cur_nodes[i] for i in sub]
        if len(cur_nodes) <= 1:
            break
    ren = {"style": rng.choice(["none", "none", "fresh", "chain", "swap", "out", "mixed", "out_chain", "rename_then_swap", "out_reuse", "in_reuse"]), "seed": rng.randrange(1 << 30)}
    if rng.random() < 0.3:
        gen.add_falsy_consts(rng, g, 0.2)  # outputs whose VALUE is None / 0 / "" / []: produced, not missing (also across an inner select)
    return {"siblings": rng.random() < 0.3, "nested_edges": rng.choice([False, False, False, True, "split"]), "graph": g, "inputs": inp, "cuts": cuts, "rename": ren, "inner_select": rng.random() < 0.25, "bind_inner": rng.random() < 0.7,
            "touch": rng.choice([[], [], ["spec"], ["graph"], ["spec", "graph"]]), "bind_conflict": rng.random() < 0.3, "async": [gen.gen_async_cfg(rng, allow_hold=True) for _ in range(2)],
            "wrap_top": rng.random() < 0.25, "rely_on_surfaced": rng.random() < 0.35}


# ------------------------------------------------------------------ nesting
def build_nested(doc: dict) -> tuple[dict, dict, dict, dict]:
    """Returns (nested spec, name map rho for outer names, info, outer bind)."""
    g = doc["graph"]
    bind = dict(doc["inputs"]["bind"])
    nodes = copy.deepcopy(g["nodes"])
    info = {"crossing": 0, "group_has_default_or_bound": False}
    conflict: set[str] = set()

    def consumers_outside(name: str, group: set[str], universe: list[dict]) -> bool:
        return any(p["name"] == name for nd in universe if nd["name"] not in group for p in nd.get("params", []))

    def wrap(level_nodes: list[dict], cuts: list[list[str]], lvl: int, outer_universe: list[dict]) -> list[dict]:
        if not cuts:
            return level_nodes
        group = set(cuts[0])
        members = [nd for nd in level_nodes if nd["name"] in group]
        rest = [nd for nd in level_nodes if nd["name"] not in group]
        if not members:
            return level_nodes
        inner_nodes = wrap(members, cuts[1:], lvl + 1, members)
        inner_outs = [o for nd in members for o in nd["outs"]]
        inner_in = []
        for nd in members:
            for p in nd["params"]:
                if p["name"] not in inner_outs and p["name"] not in inner_in:
                    inner_in.append(p["name"])
        ibind = {}
        if doc.get("bind_inner"):
            for x in inner_in:
                if x in bind:
                    # with bind_conflict the inner graph binds ANOTHER value and the enclosing graph binds the real one:
                    # the enclosing graph's binding must win, exactly as in the flat graph
                    ibind[x] = bind[x] + 1 if doc.get("bind_conflict") else bind[x]
                    if doc.get("bind_conflict"):
                        conflict.add(x)
        inner = {"name": f"G{lvl}", "nodes": inner_nodes, "order": list(range(len(inner_nodes))), "bind": ibind}
        prod_outside = {o for nd in rest for o in nd["outs"]}
        info["crossing"] += sum(1 for x in inner_in if x in prod_outside) + sum(1 for o in inner_outs if consumers_outside(o, group, level_nodes))
        if ibind or any("default" in p for nd in members for p in nd["params"] if p["name"] in inner_in):
            info["group_has_default_or_bound"] = True
        if doc.get("inner_select") and lvl == 0:
            needed = [o for o in inner_outs if consumers_outside(o, group, level_nodes)]
            if needed:
                inner["select"] = needed
        gnode = {"kind": "graph", "name": f"G{lvl}", "graph": inner, "_in": inner_in, "_outs": inner.get("select") or inner_outs, "_ibind": ibind, "touch": list(doc.get("touch") or [])}
        if conflict and lvl > 0:
            # the enclosing (inner-level) graph re-binds the real value for names its own nested graph bound differently
            pass
        return rest + [gnode]

    top_nodes = wrap(nodes, doc["cuts"], 0, nodes)
    # outer-level bind: names still consumed by outer function nodes, or not moved inside
    outer_bind = {}
    for x, v in bind.items():
        used_outer = any(p["name"] == x for nd in top_nodes if nd["kind"] == "fn" for p in nd["params"])
        moved = any(x in nd.get("_ibind", {}) for nd in top_nodes if nd["kind"] == "graph")
        # (rely_on_surfaced: a name bound inside the nested graph and ALSO consumed by an outer function node is bound nowhere else -
        #  the outer consumer takes the value the nested graph surfaces, as it takes the flat graph's binding)
        #  (not with an inner select: a binding of a name the narrowed inner graph no longer takes as input is private to it - repair 44)
        if (used_outer and not (doc.get("rely_on_surfaced") and not doc.get("inner_select"))) or not moved or x in conflict:
            outer_bind[x] = v
        elif used_outer:
            info["outer_consumer_of_surfaced_binding"] = info.get("outer_consumer_of_surfaced_binding", 0) + 1
    # renames on the (top-level) wrapper, rest of the graph alpha-renamed to match
    rho: dict[str, str] = {}
    wrapper = next((nd for nd in top_nodes if nd["kind"] == "graph"), None)
    style = doc["rename"]["style"]
    steps: list[dict] = []
    if wrapper is not None and style != "none":
        rr = random.Random(doc["rename"]["seed"])
        win, wout = list(wrapper["_in"]), list(wrapper["_outs"])
        if style in ("fresh", "mixed") and win:
            x = rr.choice(win)
            rho[x] = x + "_r"
            steps.append({"inputs": {x: x + "_r"}})
        if style == "chain" and win:
            x = rr.choice(win)
            steps.append({"inputs": {x: x + "_t"}})
            steps.append({"inputs": {x + "_t": x + "_r"}})
            rho[x] = x + "_r"
        if style in ("swap", "mixed") and len([w for w in win if w not in rho]) >= 2:
            a, b = rr.sample([w for w in win if w not in rho], 2)
            steps.append({"inputs": {a: b, b: a}})
            rho[a], rho[b] = b, a
        if style in ("out", "mixed") and wout:
            o = rr.choice(wout)
            rho[o] = o + "_r"
            steps.append({"outputs": {o: o + "_r"}})
        if style == "out_chain" and wout:
            o = rr.choice(wout)  # an output renamed twice in a row
            steps.append({"outputs": {o: o + "_t"}})
            steps.append({"outputs": {o + "_t": o + "_r"}})
            rho[o] = o + "_r"
        if style == "out_reuse" and wout:
            # an output renamed o -> t -> z -> t: the name t is abandoned and taken again
            o = rr.choice(wout)
            steps += [{"outputs": {o: o + "_t"}}, {"outputs": {o + "_t": o + "_z"}}, {"outputs": {o + "_z": o + "_t"}}]
            rho[o] = o + "_t"
            if len(wout) >= 2 and rr.random() < 0.5:
                # ... and a second output takes over a name the first one gave up:  a->K, b->S, K->T, S->K
                b2 = rr.choice([w for w in wout if w != o])
                steps[:] = [{"outputs": {o: o + "_K"}}, {"outputs": {b2: b2 + "_S"}}, {"outputs": {o + "_K": o + "_T"}}, {"outputs": {b2 + "_S": o + "_K"}}]
                rho[o], rho[b2] = o + "_T", o + "_K"
        if style == "in_reuse" and win:
            x = rr.choice(win)
            steps += [{"inputs": {x: x + "_t"}}, {"inputs": {x + "_t": x + "_z"}}, {"inputs": {x + "_z": x + "_t"}}]
            rho[x] = x + "_t"
        if style == "rename_then_swap" and len(win) >= 2:
            a, b = rr.sample(win, 2)  # an input renamed, then swapped with another one
            steps.append({"inputs": {a: a + "_p"}})
            steps.append({"inputs": {a + "_p": b, b: a + "_p"}})
            rho[a], rho[b] = b, a + "_p"
        wrapper["renames"] = steps
    # alpha-rename every outer function node through rename_inputs / output names
    for nd in top_nodes:
        if nd["kind"] != "fn":
            continue
        ri = {p["name"]: rho[p["name"]] for p in nd["params"] if p["name"] in rho}
        if ri:
            nd["rename_inputs"] = ri
        nd["outs"] = [rho.get(o, o) for o in nd["outs"]]
    for nd in top_nodes:
        for k in ("_in", "_outs", "_ibind"):
            nd.pop(k, None)
    spec = {"name": "top", "nodes": top_nodes, "order": list(range(len(top_nodes)))}
    random.Random(doc["rename"]["seed"] + 1).shuffle(spec["order"])
    info["renames"] = steps
    return spec, rho, info, {rho.get(k, k): v for k, v in outer_bind.items()}


def _strip(spec: dict) -> None:
    for nd in spec["nodes"]:
        if nd["kind"] == "graph":
            _strip(nd["graph"])
        for k in ("_in", "_outs", "_ibind"):
            nd.pop(k, None)


def _invocation_multiset(rt) -> list:
    return sorted((h["n"], canon(h["a"])) for h in rt.history if h["k"] == "enter")


def run_case(doc: dict) -> dict:
    if doc.get("kind") == "signal_cut":
        return run_signal_cut(doc)
    if doc.get("kind") == "bound_echo":
        return run_bound_echo(doc)
    if doc.get("kind") == "private_binding":
        return run_private_binding(doc)
    res = empty_result()
    g = doc["graph"]
    inp = doc["inputs"]
    flat_spec = {k: v for k, v in g.items()}
    viol: list = []
    rts = []
    sigs = []
    try:
        nspec, rho, info, outer_bind = build_nested(doc)
        _strip(nspec)
        if doc.get("wrap_top"):
            # the whole nested program, bindings included, sits one level further down in an otherwise empty graph: what the
            # top graph surfaced (merged binding tables, renamed inputs) is now read by an enclosing graph as well
            nspec = {"name": "TT", "nodes": [{"kind": "graph", "name": "top", "graph": dict(nspec, bind=dict(outer_bind))}], "order": [0]}
            outer_bind = {}
        if doc.get("siblings"):
            nspec = gen.with_api(nspec, {"siblings": True})  # decoy graphs / wrapper variants derived from the same objects
        if doc.get("nested_edges"):
            # the NESTED variant spells its topology out with explicit edges= (one declaration per pair, or one per value: after
            # wrapping, several values travel between the same two nodes); the flat variant keeps name inference
            nspec = gen.with_api(nspec, {"explicit_edges": doc["nested_edges"]})
    except Exception as e:  # noqa: BLE001 - generator bug must surface as harness error
        raise
    box: dict = {}

    def flat_values(graph):
        prov = {k: v for k, v in inp["provide"].items() if k not in inp["omit"]}
        for r in graph.inputs.required:
            if r not in prov and r in inp["provide"]:
                prov[r] = inp["provide"][r]
        box["flat_inputs"] = (set(graph.inputs.required), set(graph.inputs.optional))
        box["prov"] = prov
        return prov

    def nested_values(graph):
        box["nested_inputs"] = (set(graph.inputs.required), set(graph.inputs.optional))
        return {rho.get(k, k): v for k, v in box["prov"].items()}

    try:
        plans = [("sync", None)] + [("async", c) for c in doc["async"]]
        for i, (mode, cfg) in enumerate(plans):
            wf = run_world(flat_spec, flat_values, mode=mode, cfg=cfg, bind=inp["bind"])
            rts.append(wf["rt"])
            res["runs"] += 1
            try:
                wn = run_world(nspec, nested_values, mode=mode, cfg=cfg, bind=outer_bind)
            except BuildError as e:
                res["discard"] = "nested_variant_rejected_by_constructor"
                res["stats"]["nested_rejected:" + str(e).split(":")[0]] = 1
                res["detail"] = str(e)
                return res
            rts.append(wn["rt"])
            res["runs"] += 1
            sim_stats(res, wn["out"])
            fault_counts(wn["rt"], res["stats"])
            tag = f"{mode}{i}"
            fo, no = wf["out"], wn["out"]
            # 1. input sets, modulo renames
            fr, fopt = box["flat_inputs"]
            nr, nopt = box["nested_inputs"]
            er, eopt = {rho.get(x, x) for x in fr}, {rho.get(x, x) for x in fopt}
            if doc.get("inner_select"):
                # a selecting inner graph legitimately needs fewer inputs: never more, never reclassified
                bad_sets = not (nr <= er and nopt <= eopt)
            else:
                bad_sets = nr != er or nopt != eopt
            if bad_sets:
                viol.append((f"{tag}:input_sets_differ", {"flat_required": sorted(er), "nested_required": sorted(nr), "flat_optional": sorted(eopt), "nested_optional": sorted(nopt), "renames": info["renames"]}))
                continue
            if fo["status"] != "completed":
                viol.append((f"{tag}:flat_reference_did_not_complete", {"status": fo["status"], "error": fo["error"]}))
                continue
            if no["status"] != "completed":
                viol.append((f"{tag}:nested_run_not_completed", {"status": no["status"], "error": no["error"], "renames": info["renames"]}))
                continue
            # 2. values on names present in both
            fv = {rho.get(k, k): v for k, v in fo["values"].items()}
            nv = no["values"]
            diff = {k: (fv[k], nv[k]) for k in sorted(set(fv) & set(nv)) if canon(fv[k]) != canon(nv[k])}
            if diff:
                viol.append((f"{tag}:values_differ_from_flat", {"diff(flat,nested)": diff, "renames": info["renames"]}))
            missing = sorted(k for k in fv if k not in nv and not doc.get("inner_select"))
            if missing:
                viol.append((f"{tag}:nested_result_misses_outputs", {"missing": missing}))
            # 3. inner functions received exactly the flat arguments
            #    (final invocation of every function; exact counts where no early run with a signature default is
            #     possible - a cut legitimately changes in which step an upstream value arrives, hence how many
            #     intermediate runs a node with a defaulted upstream-fed parameter makes)
            from checks.c01 import _rerun_allowed

            rerun_ok = _rerun_allowed(g)
            grouped = {x for cut in doc["cuts"] for x in cut}
            for nd in g["nodes"]:
                ef, en = enters(wf["rt"], nd["name"]), enters(wn["rt"], nd["name"])
                if doc.get("inner_select") and nd["name"] in grouped:
                    # an inner select legitimately drops inputs the selected outputs do not need; group members
                    # outside the selected cone then run on defaults or not at all - only returned values are compared
                    continue
                if bool(ef) != bool(en):
                    viol.append((f"{tag}:function_invoked_in_only_one_variant", {"node": nd["name"], "flat": len(ef), "nested": len(en)}))
                elif ef and canon(ef[-1]["a"]) != canon(en[-1]["a"]):
                    viol.append((f"{tag}:function_arguments_differ_from_flat", {"node": nd["name"], "flat": ef[-1]["a"], "nested": en[-1]["a"], "renames": info["renames"]}))
                elif not rerun_ok and len(ef) != len(en):
                    # (exact counts only when no node can run early on a default: a group containing such a node is
                    #  re-executed as a whole, which legitimately repeats its other members)
                    viol.append((f"{tag}:function_invocation_count_differs_from_flat", {"node": nd["name"], "flat": len(ef), "nested": len(en)}))
            if no["status"] in ("deadlock", "step_cap"):
                viol.append((f"{tag}:{no['status']}", {}))
            sigs.append(completion_sig(wn["rt"]))
    except BuildError:
        res["discard"] = "flat_build_error"
        return res
    res["violations"] = viol
    res["nontrivial"] = bool(info["crossing"] or info["group_has_default_or_bound"])
    res["shape"] = digest([gen.shape_of(g), doc["cuts"], doc["rename"]["style"], doc.get("inner_select")], 8)
    res["sched"] = digest(sigs, 6)
    res["sig"] = digest([res["shape"], canon(inp), canon(info["renames"]), res["sched"]], 8)
    res["hdigest"] = hist_digest(rts)
    res["stats"]["rename_style_" + doc["rename"]["style"]] = 1
    res["stats"]["cut_depth_%d" % len(doc["cuts"])] = 1
    if doc.get("wrap_top"):
        res["stats"]["whole_program_one_level_deeper"] = 1
    if info.get("outer_consumer_of_surfaced_binding"):
        res["stats"]["outer_consumer_of_surfaced_binding"] = 1
    return res


def shrink_candidates(doc: dict):
    if doc.get("kind") == "private_binding":
        if doc.get("depth") == 2:
            yield dict(doc, depth=1)
        return
    if doc.get("kind") == "bound_echo":
        return
    if doc.get("kind") == "signal_cut":
        if doc.get("depth") == 2:
            yield dict(doc, depth=1)
        if doc.get("with_data_edge"):
            yield dict(doc, with_data_edge=False)
        return
    g = doc["graph"]
    n = len(g["nodes"])
    for i in reversed(range(n)):
        c = copy.deepcopy(doc)
        removed = c["graph"]["nodes"].pop(i)
        c["graph"]["order"] = [j if j < i else j - 1 for j in c["graph"]["order"] if j != i]
        for o in removed["outs"]:
            if o not in c["graph"]["ext"]:
                c["graph"]["ext"].append(o)
            c["inputs"]["provide"].setdefault(o, 7)
        c["cuts"] = [[x for x in cut if x != removed["name"]] for cut in c["cuts"]]
        c["cuts"] = [cut for cut in c["cuts"] if cut]
        yield c
    if len(doc["cuts"]) > 1:
        c = copy.deepcopy(doc)
        c["cuts"] = doc["cuts"][:-1]
        yield c
    for ci, cut in enumerate(doc["cuts"]):
        if len(cut) > 1:
            for x in cut:
                c = copy.deepcopy(doc)
                c["cuts"][ci] = [y for y in cut if y != x]
                c["cuts"] = [[y for y in cc if ci2 <= ci or y != x] for ci2, cc in enumerate(c["cuts"])]
                c["cuts"] = [cc for cc in c["cuts"] if cc]
                yield c
    if doc["rename"]["style"] != "none":
        for st in ("none", "fresh", "swap", "out", "chain", "out_chain"):
            if st != doc["rename"]["style"]:
                c = copy.deepcopy(doc)
                c["rename"]["style"] = st
                yield c
    for key in ("inner_select", "bind_inner", "wrap_top", "siblings", "bind_conflict", "rely_on_surfaced"):
        if doc.get(key):
            c = copy.deepcopy(doc)
            c[key] = False
            yield c
    for nd_i, nd in enumerate(g["nodes"]):
        for p_i in range(len(nd["params"])):
            c = copy.deepcopy(doc)
            del c["graph"]["nodes"][nd_i]["params"][p_i]
            yield c
    for k in list(doc["inputs"]["bind"]):
        c = copy.deepcopy(doc)
        del c["inputs"]["bind"][k]
        yield c
    for k in list(doc["inputs"]["omit"]):
        c = copy.deepcopy(doc)
        c["inputs"]["omit"].remove(k)
        yield c
    if len(doc["async"]) > 1:
        c = copy.deepcopy(doc)
        c["async"] = doc["async"][:1]
        yield c
    simple = {"schedule": {"mode": "delay", "seed": 0, "choices": [0], "delays": {}}, "shuffle": None, "max_concurrency": None}
    for i, a in enumerate(doc["async"]):
        if a != simple:
            c = copy.deepcopy(doc)
            c["async"][i] = simple
            yield c


def signature(doc: dict, cls: str, detail) -> str:
    base = cls.split(":", 1)[-1]
    return base


def sample_repr(doc: dict, res: dict):
    if doc.get("kind") == "private_binding":
        return {"template": "inner graph binds a name its selected part does not need; wrapper renames a needed input onto it", "depth": doc.get("depth")}
    if doc.get("kind") == "bound_echo":
        return {"template": "inner graph entered below its first node, upstream value from its own binding", "rename": doc.get("rename")}
    if doc.get("kind") == "signal_cut":
        return {"template": "producer of a signal wrapped, waiter outside", "depth": doc.get("depth"), "with_data_edge": doc.get("with_data_edge")}
    return {"nodes": [[n["name"], [p["name"] + ("=d" if "default" in p else "") for p in n["params"]], n["outs"]] for n in doc["graph"]["nodes"]],
            "cuts(outer->inner)": doc["cuts"], "rename_style": doc["rename"]["style"], "inner_select": doc["inner_select"], "bind_inner": doc["bind_inner"], "inputs": doc["inputs"]}


LEVEL_TEXT = (
    "Seeded exploration of (DAG, convex cut, nesting depth, binding placement, wrapper renames) tuples: the flat graph and its nested variant are "
    "both executed by the real runners (async under simulated completion orders with a shared concurrency limit) and must agree on the "
    "required/optional input sets, on every common output value and on the exact arguments every function received."
)
LEVEL_NOTE = "Differential oracle: the flat graph is the reference. Trusts the nesting transformation in checks/c05.py:build_nested."
TECHNIQUE = "deterministic simulation; flat-vs-nested differential over generated cuts, bindings and renames"
DESIGN_REF = "DESIGN.md §4 C05"
