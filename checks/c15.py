"""C15 — max_concurrency bounds all node executions globally and never deadlocks."""

from __future__ import annotations

import copy
import random

from hgsim import gen
from hgsim.case import BuildError, completion_sig, fault_counts, fill_values, hist_digest, invocations, run_world, sim_stats
from hgsim.driver import empty_result
from hgsim.sweep import sweep
from hgsim.util import canon, digest, mix

ID = "C15"
LEVEL = "exploration"
BUDGET = {"quick": (8, 450, 90), "thorough": (16, 14000, 600)}
RULE = (
    "seeded wide programs (layers of 2-4 parallel nodes, nested graphs to depth 3 whose inner layers are wide, map_over nodes and runner.map "
    "with fan-out <=6, maps inside nested graphs inside maps) run on AsyncRunner with max_concurrency k in 1..4 under an ADVERSARIAL scheduler: "
    "every body is held open and released one at a time only when the simulator is quiescent, so at each decision the framework has admitted "
    "as many bodies as it ever will (release order seeded, or swept systematically for small cases); also random-delay and ready-shuffle modes. "
    "Non-trivial = the limit was saturated (in_flight == k at some body entry); distinct = digest of (program shape, k, release order)."
    ' Also: async generator nodes and interrupt handlers (both are node functions), and a SEQUENCE variant: an earlier top-level call with another limit, made from the same task, fails / returns FAILED / pauses / completes / is cancelled by a caller-side timeout (asyncio.wait_for on the virtual clock, bodies in flight) / is a map over nothing / is a rejected map, before the measured call. Survivable failures: a node function or interrupt handler raises inside items of a continuing map (runner.map or map_over node, error_handling=continue); the rest of the call must still get its permits. Programs in which no node is an async def (every function is a plain def returning a coroutine) and nodes declared cache=True on a runner without a backend. Exact step budget: max_iterations set to what the unlimited run needs (a concurrency limit must not change the number of supersteps).'
)
ASSUMPTIONS = ["bodies of function nodes, interrupt handlers and routing functions of gates are the unit of 'executing'; routing functions are synchronous: they are counted while they run but cannot be held open"]


def gen_wide(rng: random.Random, depth: int, prefix: str, avail_in: list[str], *, name: str, force_param: str | None = None, allow_interrupt: bool = True) -> dict:
    own_ext = [f"{prefix}i{k}" for k in range(rng.randint(1, 2))]
    ext = list(own_ext)
    lists: list[str] = []
    avail = list(avail_in[:3]) + own_ext + ([force_param] if force_param else [])
    picked = list(avail_in[:3])
    nodes: list[dict] = []
    idx = 0
    used_force = force_param is None
    for _layer in range(rng.randint(1, 3)):
        new_outs: list[str] = []
        for _ in range(rng.randint(2, 4)):
            r = rng.random()
            i = idx
            idx += 1
            if depth > 0 and r < 0.2:
                inner = gen_wide(rng, depth - 1, f"{prefix}g{i}_", [a for a in avail if a not in lists], name=f"{prefix}g{i}", allow_interrupt=allow_interrupt)
                nodes.append({"kind": "graph", "name": f"{prefix}g{i}", "graph": inner})
                ext += [e for e in inner["ext"] if e not in ext]
                lists += [x for x in inner["lists"] if x not in lists]
                new_outs += gen.program_outputs(inner)
            elif depth > 0 and r < 0.35:
                m = f"{prefix}m{i}"
                inner = gen_wide(rng, depth - 1, f"{prefix}g{i}_", [a for a in avail if a not in lists], name=f"{prefix}g{i}", force_param=m, allow_interrupt=False)
                nodes.append({"kind": "graph", "name": f"{prefix}g{i}", "graph": inner, "map_over": [m], "map_mode": "zip", "error_handling": "raise"})
                ext += [e for e in inner["ext"] if e not in ext]
                lists += [m] + gen.program_outputs(inner) + [x for x in inner["lists"] if x not in lists]
                new_outs += gen.program_outputs(inner)
            else:
                k = rng.randint(0, min(2, len(avail)))
                params = rng.sample(avail, k)
                if not used_force:
                    params.append(force_param)
                    used_force = True
                params = list(dict.fromkeys(params))
                out = f"{prefix}o{i}"
                nd_new = {"kind": "fn", "name": f"{prefix}n{i}", "params": [{"name": p} for p in params], "outs": [out], "async": None if rng.random() < 0.9 else False}
                if allow_interrupt and prefix and params and rng.random() < 0.12:
                    # an interrupt whose (async) handler answers by itself: the handler is a node function too
                    nd_new = {"kind": "interrupt", "name": f"{prefix}n{i}", "params": [{"name": p} for p in params if p not in lists][:2] or [{"name": params[0]}], "outs": [out], "script": [], "async_handler": True}
                elif rng.random() < 0.15:
                    nd_new["gen"] = True  # async generator node: its body runs while the framework drains it
                nodes.append(nd_new)
                new_outs.append(out)
        avail += new_outs
    if rng.random() < 0.3:
        # a gate: its routing function is a node function as well (it runs while other bodies are held open)
        src = [a for a in avail if a not in lists]
        if src:
            p0 = rng.choice(src)
            nodes.append({"kind": "ifelse", "name": f"{prefix}rg", "params": [{"name": p0}], "when_true": f"{prefix}rt", "when_false": "@END", "default_open": False, "decide": {"op": "mod", "choices": [True, True, False]}})
            nodes.append({"kind": "fn", "name": f"{prefix}rt", "params": [{"name": p0}], "outs": [f"{prefix}ort"], "async": None})
    if not used_force:
        nodes.append({"kind": "fn", "name": f"{prefix}nf", "params": [{"name": force_param}], "outs": [f"{prefix}of"]})
    return {"name": name, "nodes": nodes, "order": list(range(len(nodes))), "ext": ext, "lists": lists, "seeds": [], "own_ext": own_ext, "picked": picked}


def est_bodies(g: dict, provide: dict) -> int:
    n = 0
    for nd in g["nodes"]:
        if nd["kind"] == "fn":
            n += 1
        elif nd["kind"] == "graph":
            inner = est_bodies(nd["graph"], provide)
            if nd.get("map_over"):
                inner *= max(1, len(provide.get(nd["map_over"][0], [])))
            n += inner
    return n


MAX_BODIES = 36


def gen_case(rng: random.Random, tier: str) -> dict:
    while True:
        g = gen_wide(rng, rng.choice([0, 1, 1, 2, 2, 3]), "", [], name="top")
        provide = {e: mix("p", e) for e in g["ext"] if e not in g["lists"]}
        for m in gen.mapped_params(g):
            provide[m] = [mix("m", m, j) % 100000 for j in range(rng.randint(0, 6 if rng.random() < 0.3 else 3))]
        ext = [e for e in g["ext"] if e not in g["lists"]]
        top_map = rng.choice(ext) if ext and rng.random() < 0.3 else None
        top_n = rng.randint(1, 6)
        if est_bodies(g, provide) * (top_n if top_map else 1) <= MAX_BODIES:
            break
    # a SURVIVABLE node failure: a handler / function raises, the surrounding map continues with the other items;
    # every failure must give its permit back or the rest of the call starves
    fault = None
    if rng.random() < 0.35:
        from hgsim.spec import iter_nodes

        cands = [(nd, d) for nd, d, _p in iter_nodes(g) if nd["kind"] in ("fn", "interrupt")]
        ints = [c for c in cands if c[0]["kind"] == "interrupt"]
        pool = ints if (ints and rng.random() < 0.7) else cands
        if pool:
            nd, _d = rng.choice(pool)
            fault = {"node": nd["name"], "when": "before" if nd["kind"] == "interrupt" else rng.choice(["before", "after"]), "exc": rng.choice(gen.EXC_KINDS)}
            for m, _d2, _p2 in iter_nodes(g):
                if m["kind"] == "graph" and m.get("map_over"):
                    m["error_handling"] = "continue"
    from hgsim.spec import iter_nodes as _iter

    all_wrapped = rng.random() < 0.15
    for nd, _d, _p in _iter(g):
        if nd["kind"] == "fn":
            if all_wrapped and not nd.get("gen") and nd.get("async") is None:
                nd["wrap_async"] = True  # EVERY function is a plain def that returns a coroutine: no node "is async", all of them suspend
            if rng.random() < 0.15:
                nd["cache"] = True  # declared cacheable, on a runner WITHOUT a cache backend
        elif nd["kind"] == "interrupt" and all_wrapped:
            nd["async_handler"] = "wrapped"
    return {
        "graph": g,
        "inputs": {"provide": provide, "omit": []},
        "fault": fault,
        # the step budget (max_iterations) is set to exactly what the unlimited run needs: a limit on concurrency must not change
        # how many supersteps a run takes
        "exact_budget": rng.random() < 0.3,
        "k": rng.choice([1, 1, 2, 2, 3, 4]),
        "hold_seeds": [rng.randrange(1 << 30) for _ in range(2)],
        "sweep": rng.random() < 0.4,
        "other": gen.gen_async_cfg(rng, allow_hold=False),
        "top_map": top_map,
        "top_map_n": top_n,
        "tier": tier,
        # an earlier top-level call made from the SAME task with another limit, ending by failure / FAILED result / completion
        "pre_run": rng.choice([None, None, {"k1": rng.choice([3, 4, 5]), "end": rng.choice(["raise", "continue", "ok", "pause", "cancel", "empty_map", "bad_map"]), "t": rng.choice([0.5, 1.5, 2.5, 3.5, 4.5])}]),
    }


SWEEP_CAP = {"quick": 12, "thorough": 60}


def run_case(doc: dict) -> dict:
    res = empty_result()
    g = doc["graph"]
    k = doc["k"]
    base_values = fill_values(doc["inputs"])
    op, kw = "run", {}
    values = base_values
    flt = doc.get("fault")
    faults = [{"kind": "raise", "node": flt["node"], "when": flt["when"], "fid": 0, "exc": flt["exc"]}] if flt else []
    if flt:
        kw = {"error_handling": "continue"}
    if doc.get("top_map"):
        mp = doc["top_map"]
        op, kw = "map", dict(kw, map_over=mp)

        def values(graph, _b=base_values, _mp=mp):  # noqa: F811
            v = _b(graph)
            v[_mp] = [v.get(_mp, 3) + j for j in range(doc["top_map_n"])]
            return v

    viol: list = []
    rts = []
    sigs = []
    sat = 0

    def summary(w):
        out = w["out"]
        if out["status"] == "list":
            return ["list", [[it["status"], canon(it["values"]) if it["status"] != "failed" else None] for it in out["items"]]]
        if out["status"] == "failed":
            return [out["status"], None, out["error"] and out["error"][0]]  # (partial values of a failed run are C02/C11's business)
        return [out["status"], canon(out["values"]), out["error"]]

    def world(cfg, label):
        nonlocal sat
        w = run_world(g, values, mode="async", cfg=cfg, run_kwargs=dict(kw), op=op, faults=copy.deepcopy(faults))
        rts.append(w["rt"])
        if w["rt"].fired:
            res["stats"]["fault_survivable_node_raise"] = res["stats"].get("fault_survivable_node_raise", 0) + len(w["rt"].fired)
        res["runs"] += 1
        sim_stats(res, w["out"])
        fault_counts(w["rt"], res["stats"])
        rt, out = w["rt"], w["out"]
        for c, d in rt.violations:
            viol.append((f"{label}:{c}", d))
        if out["status"] in ("deadlock", "step_cap", "no_outcome"):
            parked = [kk for kk, f in rt.parked if not f.done()]
            viol.append((f"{label}:{out['status']}", {"k": cfg.get("max_concurrency"), "in_flight": {c: sorted(v) for c, v in rt.inflight.items()}, "parked": parked}))
        if (out.get("sim") or {}).get("orphans"):
            viol.append((f"{label}:orphan_tasks", {"orphans": out["sim"]["orphans"]}))
        if cfg.get("max_concurrency") is not None:
            s = sum(rt.saturated.values())
            if s:
                sat += 1
                res["stats"]["probe_semaphore_saturated"] = res["stats"].get("probe_semaphore_saturated", 0) + 1
        return w

    try:
        if doc.get("pre_run"):
            _sequence(doc, g, values, op, kw, res, rts, viol)
        ref = world({"schedule": {"mode": "delay", "seed": 1, "choices": [0, 1]}, "shuffle": None, "max_concurrency": None}, "unlimited")
        if doc.get("exact_budget") and op == "run" and ref["out"]["status"] == "completed":
            from hgsim.loops import top_steps

            n_steps = len(top_steps(ref["rt"]))
            for budget in (n_steps, n_steps + 1):
                kw["max_iterations"] = max(1, budget)
                ref2 = world({"schedule": {"mode": "delay", "seed": 1, "choices": [0, 1]}, "shuffle": None, "max_concurrency": None}, "unlimited_with_exact_budget")
                if ref2["out"]["status"] == "completed":
                    ref = ref2
                    res["stats"]["cases_with_exact_step_budget"] = 1
                    break
            else:
                kw.pop("max_iterations", None)
        base = summary(ref)
        if base[0] == "raised":
            res["discard"] = "rejected_by_validation"
            return res
        binv = invocations(ref["rt"])
        for i, hs in enumerate(doc["hold_seeds"]):
            cfg = {"schedule": {"mode": "hold", "seed": hs}, "shuffle": None, "max_concurrency": k}
            w = world(cfg, f"hold{i}")
            sigs.append(completion_sig(w["rt"]))
            if w["out"]["status"] not in ("deadlock", "step_cap", "no_outcome"):
                if summary(w) != base:
                    viol.append((f"hold{i}:result_differs_from_unlimited_run", {"k": k, "unlimited": base, "limited": summary(w)}))
                elif invocations(w["rt"]) != binv and not flt:
                    viol.append((f"hold{i}:invocations_differ_from_unlimited_run", {"k": k}))
        if doc.get("sweep"):

            def run_with(prefix):
                cfg = {"schedule": {"mode": "hold", "sweep": True, "decisions": list(prefix), "seed": 0}, "shuffle": None, "max_concurrency": k}
                w = world(cfg, "sweep")
                sigs.append(completion_sig(w["rt"]))
                if w["out"]["status"] not in ("deadlock", "step_cap", "no_outcome") and summary(w) != base:
                    viol.append(("sweep:result_differs_from_unlimited_run", {"k": k, "prefix": list(prefix)}))
                return {"decision_log": w["rt"].decision_log}

            runs, ex = sweep(run_with, SWEEP_CAP.get(doc.get("tier", "quick"), 12))
            res["stats"]["sweep_schedules"] = len(runs)
            if ex:
                res["stats"]["sweep_exhaustive_programs"] = 1
        cfg = dict(doc["other"], max_concurrency=k)
        w = world(cfg, "delay")
        sigs.append(completion_sig(w["rt"]))
        if w["out"]["status"] not in ("deadlock", "step_cap", "no_outcome") and summary(w) != base:
            viol.append(("delay:result_differs_from_unlimited_run", {"k": k}))
    except BuildError:
        res["discard"] = "build_error"
        return res
    res["violations"] = viol
    res["nontrivial"] = sat > 0
    res["shape"] = gen.shape_of(g)
    res["sched"] = digest(sorted(set(sigs)), 6)
    res["sig"] = digest([res["shape"], k, canon(doc["inputs"]), doc.get("top_map"), res["sched"]], 8)
    res["hdigest"] = hist_digest(rts)
    return res


def _sequence(doc, g, values, op, kw, res, rts, viol) -> None:
    """Two top-level calls from one task: the first (limit k1) fails / pauses / completes, the second must obey ITS limit k."""
    from hgsim.case import build
    from hgsim.rt import Runtime
    from hgsim.world import call_async, make_runner, patched

    pre = doc["pre_run"]
    k, k1 = doc["k"], pre["k1"]
    rt = Runtime(schedule={"mode": "hold", "seed": doc["hold_seeds"][0]}, faults=[{"kind": "raise", "node": "pre_f", "inv": 0, "fid": 9}] if pre["end"] in ("raise", "continue") else [])
    pre_nodes = [{"kind": "fn", "name": "pre_a", "params": [], "outs": ["pre_x"]}, {"kind": "fn", "name": "pre_b", "params": [], "outs": ["pre_y"]}, {"kind": "fn", "name": "pre_f", "params": [{"name": "pre_x"}], "outs": ["pre_z"]}]
    if pre["end"] == "pause":
        pre_nodes.append({"kind": "interrupt", "name": "pre_i", "params": [{"name": "pre_y"}], "outs": ["pre_ans"], "script": ["pause"], "async_handler": True})
    with patched(rt):
        graph, _c = build(g, rt, "async")
        pre_graph, _c2 = build({"name": "pre", "nodes": pre_nodes, "order": list(range(len(pre_nodes)))}, rt, "async")
        pre_map, _c3 = build({"name": "prem", "nodes": [{"kind": "fn", "name": "pre_m", "params": [{"name": "pre_u"}, {"name": "pre_v"}], "outs": ["pre_mo"]}], "order": [0]}, rt, "async")
        runner = make_runner("async", rt)
        vals = values(graph) if callable(values) else dict(values)
        fn = getattr(runner, op)

        async def seq():
            import asyncio

            rt.limit["c0"] = k1
            try:
                if pre["end"] == "cancel":
                    # the caller gives up on the first call after t simulated seconds (asyncio.wait_for): it is cancelled with
                    # bodies in flight / between steps / not at all, depending on the seeded delays
                    hold_sched = rt.schedule
                    rt.schedule = {"mode": "delay", "seed": doc["hold_seeds"][0], "choices": [1, 2, 3]}
                    try:
                        await asyncio.wait_for(runner.run(pre_graph, {}, max_concurrency=k1), timeout=pre.get("t", 1.5))
                    except asyncio.TimeoutError:
                        rt.probes["pre_run_cancelled"] = rt.probes.get("pre_run_cancelled", 0) + 1
                    finally:
                        rt.schedule = hold_sched
                elif pre["end"] == "empty_map":
                    # a map over nothing: returns [] without running anything
                    await runner.map(pre_map, {"pre_u": [], "pre_v": 1}, map_over="pre_u", max_concurrency=k1)
                elif pre["end"] == "bad_map":
                    # a map the runner rejects (zip over lists of unequal length); the caller handles the error and goes on
                    await runner.map(pre_map, {"pre_u": [1], "pre_v": [1, 2]}, map_over=["pre_u", "pre_v"], map_mode="zip", max_concurrency=k1)
                else:
                    await runner.run(pre_graph, {}, max_concurrency=k1, error_handling="continue" if pre["end"] == "continue" else "raise")
            except Exception:  # noqa: BLE001 - the first call may fail; the second is what is measured
                pass
            rt.limit["c0"] = k
            return await fn(graph, dict(vals), max_concurrency=k, **kw)

        out = call_async(rt, [seq], limits=[k1])[0]
    rts.append(rt)
    res["runs"] += 2
    res["stats"]["sequence_cases_" + pre["end"]] = 1
    if rt.probes.get("pre_run_cancelled"):
        res["stats"]["fault_call_cancelled_by_timeout"] = rt.probes["pre_run_cancelled"]
    for c, d in rt.violations:
        viol.append((f"sequence[{pre['end']}]:{c}", dict(d, first_call_limit=k1, second_call_limit=k)))
    if out["status"] in ("deadlock", "step_cap", "no_outcome"):
        viol.append((f"sequence[{pre['end']}]:{out['status']}", {"k1": k1, "k": k}))


def shrink_candidates(doc: dict):
    from checks.c02 import shrink_program

    yield from shrink_program(doc)
    for key, val in (("top_map", None), ("sweep", False), ("pre_run", None), ("fault", None)):
        if doc.get(key):
            c = copy.deepcopy(doc)
            c[key] = val
            yield c
    if len(doc["hold_seeds"]) > 1:
        c = copy.deepcopy(doc)
        c["hold_seeds"] = doc["hold_seeds"][:1]
        yield c
    if doc["k"] > 1:
        c = copy.deepcopy(doc)
        c["k"] = doc["k"] - 1
        yield c
    if doc.get("top_map") and doc["top_map_n"] > 1:
        c = copy.deepcopy(doc)
        c["top_map_n"] -= 1
        yield c


def signature(doc: dict, cls: str, detail) -> str:
    return cls.split(":", 1)[-1]


def sample_repr(doc: dict, res: dict):
    def brief(gr):
        out = []
        for nd in gr["nodes"]:
            if nd["kind"] == "graph":
                out.append({nd["name"]: brief(nd["graph"]), "map_over": nd.get("map_over")})
            else:
                out.append([nd["name"], [p["name"] for p in nd["params"]]])
        return out

    return {"program": brief(doc["graph"]), "k": doc["k"], "top_map": doc["top_map"], "lists": {k: len(v) for k, v in doc["inputs"]["provide"].items() if isinstance(v, list)}, "scheduler": "hold-open, release one body per quiescence"}


LEVEL_TEXT = (
    "Seeded exploration with an adversarial scheduler: the simulator holds every node body open and finishes exactly one only when the whole "
    "system is quiescent, so the in-flight count observed at each body entry is the worst the framework allows; an online monitor checks "
    "in_flight <= k across all nesting levels and map items of the call tree, quiescence with an unfinished call is reported as deadlock, a step "
    "cap catches livelock, and the result must equal the unlimited run. Small cases get a systematic sweep over release orders."
)
LEVEL_NOTE = "Trusts the in-flight accounting in hgsim/rt.py and the quiescence detection of SimLoop. Sampling over shapes; bounded sweep over release orders."
TECHNIQUE = "deterministic simulation with adversarial hold-open scheduling; online in-flight monitor, deadlock/livelock detection at quiescence, unlimited run as reference"
DESIGN_REF = "DESIGN.md §4 C15"
