"""C18 — run isolation: no state leaks between runs; caller-owned objects untouched."""

from __future__ import annotations

import copy
import random

from hgsim import gen
from hgsim.case import build, hist_digest
from hgsim.driver import empty_result
from hgsim.rt import Runtime
from hgsim.util import canon, digest, mix
from hgsim.world import call_async, call_sync, make_runner, patched

ID = "C18"
LEVEL = "exploration"
BUDGET = {"quick": (8, 350, 90), "thorough": (16, 9000, 600)}
RULE = (
    "seeded graphs (flat, and with the mutating node inside a nested graph) whose functions append to list-valued signature defaults and return a "
    "snapshot, with a bound mutable object and mutable values in the caller's input dict; a HISTORY of 3-8 operations on a small pool of graphs and "
    "runner instances: sync run, async run, batch of 2-4 CONCURRENT async runs on one SimLoop (same or different runner instance, same or different "
    "graph, equal or different inputs, each with its own max_concurrency), map; interleaving of concurrent runs by seeded delays, hold-open release and "
    "ready-shuffle. Reference = the same operation executed alone on freshly compiled objects. Non-trivial = >=2 runs overlapped in simulated time or a "
    "mutating function ran in >=2 runs; distinct = digest of (program shape, history, interleaving)."
    ' Also: defaults that are dicts holding a mutable value, part of the inputs passed as keyword arguments, structurally identical graphs with different entry-point configuration on shared runners, a mapping node whose inner graph binds an object (clone True/False/list; wrapper input renamed or not); cache-enabled runners (shared or per-runner InMemoryCache) with cacheable mutating-default nodes; two sibling nested graphs binding one parameter name to different objects (with / without an overriding binding on the enclosing graph); an auto-resolving two-output interrupt with a signal whose handler returns one shared dict object on every call; a run of a concurrent batch cancelled by a caller-side timeout (asyncio.wait_for on the virtual clock).'
)
ASSUMPTIONS = ["node functions mutate only their default-valued arguments; bound and provided objects are only read"]


def gen_prog(rng: random.Random, nested: bool, pfx: str = "") -> dict:
    """x -> acc nodes (mutating list defaults) -> consumer of a bound object."""
    n_acc = rng.randint(1, 3)
    nodes = []
    prev = "x"
    for i in range(n_acc):
        ps = [{"name": prev}]
        if rng.random() < 0.5:
            ps.append({"name": "y"})
        if rng.random() < 0.2:
            # the default is a tuple that holds a list: "immutable" containers may hold mutable values
            ps.append({"name": f"acc{i}", "default": "__tuple_of_list__"})
            nodes.append({"kind": "fn", "name": f"{pfx}a{i}", "params": ps, "outs": [f"s{i}"], "beh": "snapshot_tuple", "beh_param": f"acc{i}"})
        elif rng.random() < 0.35:
            # the default is a dict that HOLDS a mutable value: a shallow copy per run is not enough
            ps.append({"name": f"acc{i}", "default": {"items": [], "count": 0}})
            nodes.append({"kind": "fn", "name": f"{pfx}a{i}", "params": ps, "outs": [f"s{i}"], "beh": "snapshot_nested", "beh_param": f"acc{i}"})
        else:
            ps.append({"name": f"acc{i}", "default": []})
            nodes.append({"kind": "fn", "name": f"{pfx}a{i}", "params": ps, "outs": [f"s{i}"], "beh": "snapshot", "beh_param": f"acc{i}"})
        prev = f"s{i}" if rng.random() < 0.7 else prev
    nodes.append({"kind": "fn", "name": f"{pfx}use", "params": [{"name": f"s{n_acc - 1}"}, {"name": "cfg"}, {"name": "y"}], "outs": ["u"]})
    if rng.random() < 0.5:
        nodes.append({"kind": "fn", "name": f"{pfx}side", "params": [{"name": "x"}, {"name": "memo", "default": []}], "outs": ["sd"], "beh": "snapshot", "beh_param": "memo"})
    if nested:
        inner = [nd for nd in nodes if nd["name"].startswith(f"{pfx}a")]
        rest = [nd for nd in nodes if not nd["name"].startswith(f"{pfx}a")]
        nodes = [{"kind": "graph", "name": f"{pfx}inner", "graph": {"name": f"{pfx}inner", "nodes": inner, "order": list(range(len(inner)))}}] + rest
    order = list(range(len(nodes)))
    rng.shuffle(order)
    return {"name": "g", "nodes": nodes, "order": order, "last": f"s{n_acc - 1}", "use": f"{pfx}use"}


def gen_case(rng: random.Random, tier: str) -> dict:
    progs = [gen_prog(rng, False, "p0_"), gen_prog(rng, True, "p1_")]
    ops = []
    for _ in range(rng.randint(3, 8)):
        r = rng.random()
        if r < 0.015:
            # two graphs whose only node carries the SAME node name but a different input wiring, one runner after the other
            ops.append({"op": "twins", "first": rng.choice(["a", "b"]), "nested": rng.random() < 0.4, "sync": rng.random() < 0.5, "runner": rng.randrange(2), "x": rng.randint(0, 2), "cfg": gen.gen_async_cfg(rng)})
        elif r < 0.03:
            ops.append({"op": "sharedresp", "runner": rng.randrange(3), "x": rng.randint(0, 2), "cfg": gen.gen_async_cfg(rng)})
        elif r < 0.06:
            ops.append({"op": "siblings", "depth": rng.choice([1, 1, 2, 2, "2map"]), "provide": rng.choice([None, None, "A_obj", "other"]), "sync": rng.random() < 0.5, "runner": rng.randrange(2), "x": rng.randint(0, 2), "cfg": gen.gen_async_cfg(rng), "outer_bind": rng.random() < 0.3})
        elif r < 0.12:
            ops.append({"op": "mapnode", "mo": rng.choice(["x", "xy"]), "renamed": rng.random() < 0.5, "clone": rng.choice([True, False, ["y"]]), "xs": [rng.randint(0, 3) for _ in range(rng.randint(1, 3))], "sync": rng.random() < 0.5, "runner": rng.randrange(2), "cfg": gen.gen_async_cfg(rng)})
            if rng.random() < 0.3:
                # the mapped list is left to a SIGNATURE DEFAULT whose items are mutable and are mutated by the function; run twice
                ops[-1].update(defx=True, mo="x", renamed=False)
        elif r < 0.25:
            ops.append({"op": "sync", "g": rng.randrange(2), "runner": rng.randrange(2), "x": rng.randint(0, 2), "kw": rng.random() < 0.4, "ep": rng.random() < 0.3})
        elif r < 0.45:
            ops.append({"op": "async", "g": rng.randrange(2), "runner": rng.randrange(2), "x": rng.randint(0, 2), "k": rng.choice([None, 1, 2]), "cfg": gen.gen_async_cfg(rng), "kw": rng.random() < 0.4, "ep": rng.random() < 0.3})
        elif r < 0.85:
            n = rng.randint(2, 4)
            same_x = rng.random() < 0.6
            x0 = rng.randint(0, 2)
            ops.append({
                "op": "batch",
                "runs": [{"g": rng.randrange(2), "runner": rng.randrange(3), "x": x0 if same_x else rng.randint(0, 2), "k": rng.choice([None, 1, 2, 3]), "kw": rng.random() < 0.3, "ep": rng.random() < 0.25,
                          # the caller gives up on this run after t simulated seconds (asyncio.wait_for): the others must not notice
                          "cancel_after": rng.choice([0.5, 1.5, 2.5]) if rng.random() < 0.15 else None} for _ in range(n)],
                "cfg": gen.gen_async_cfg(rng),
            })
        else:
            ops.append({"op": "map", "g": rng.randrange(2), "runner": rng.randrange(2), "xs": [rng.randint(0, 2) for _ in range(rng.randint(1, 3))], "sync": rng.random() < 0.5, "cfg": gen.gen_async_cfg(rng), "k": rng.choice([None, 1, 2])})
    cache = rng.choice([None, None, "shared", "per_runner"])
    if cache:
        # cache-enabled runners and cacheable mutating-default nodes: a miss runs the function on its own copies, a hit returns the stored snapshot
        from hgsim.spec import iter_nodes

        for pr in progs:
            for nd, _d, _p in iter_nodes(pr):
                if nd["kind"] == "fn" and nd.get("beh") in ("snapshot", "snapshot_nested") and rng.random() < 0.7:
                    nd["cache"] = True
    for pr in progs:
        # throw-away siblings derived from the very graph objects of the history (graph.bind(cfg=<other>), unbind ...): a parameter sweep
        # over one base graph never changes what the base graph - or a graph derived from it earlier or later - has bound
        if rng.random() < 0.35:
            pr["siblings"] = True
    return {"progs": progs, "ops": ops, "cache": cache}


def _mapnode_spec(clone, ren: bool, mo: str) -> dict:
    """A mapping node 'mp' whose inner graph binds an object. ren: the wrapper input of the binding is renamed; mo: mapped over x, or over
    x and y (zip) - with clone a list only when y is broadcast."""
    cl = clone if not (isinstance(clone, list) and mo == "xy") else False
    return {"name": "mo", "nodes": [{"kind": "graph", "name": "mp", "map_over": ["x"] if mo == "x" else ["x", "y"], "map_mode": "zip", "clone": cl,
                                     "renames": [{"inputs": {"cfgi": "cfg_outer_name"}}] if ren else [],
                                     "graph": {"name": "mp", "bind": {"cfgi": {"inner": [7]}}, "nodes": [
                                         {"kind": "fn", "name": "mf", "params": [{"name": "x"}, {"name": "y"}, {"name": "cfgi"}], "outs": ["mo_o"]}], "order": [0]}}], "order": [0]}


def _twin_spec(which: str, nested: bool) -> dict:
    """Graph 'a': node tw(ta, tb); graph 'b': a node of the SAME NAME over the same function with its two inputs wired crosswise.
    nested: the 'b' node sits in a nested graph beside an outer 'a' node (one run executes both)."""
    a = {"kind": "fn", "name": "tw", "fid": "twf", "params": [{"name": "ta"}, {"name": "tb"}], "outs": ["two_a"]}
    b = {"kind": "fn", "name": "tw", "fid": "twf", "params": [{"name": "ta"}, {"name": "tb"}], "outs": ["two_b"], "rename_inputs": {"ta": "tb", "tb": "ta"}}
    if nested:
        return {"name": "tn", "nodes": [a, {"kind": "graph", "name": "TWN", "graph": {"name": "TWN", "nodes": [b], "order": [0]}}], "order": [0, 1] if which == "a" else [1, 0]}
    return {"name": "tw_" + which, "nodes": [a if which == "a" else b], "order": [0]}


def _twin_alone(which: str, nested: bool, flav: str, inp: dict) -> list:
    rt = Runtime(schedule={"mode": "delay", "seed": 0, "choices": [0]})
    with patched(rt):
        graph, _ = build(_twin_spec(which, nested), rt, flav)
        if flav == "sync":
            return _summ(call_sync(rt, lambda: make_runner("sync", rt).run(graph, inp)))
        return _summ(call_async(rt, [lambda: make_runner("async", rt).run(graph, inp)])[0])


def _mapdef_spec(clone) -> dict:
    """A mapping node that maps over an input nobody supplies: the list is the inner function's signature default, its items are lists
    the function appends to. Every run starts from the default as written."""
    return {"name": "md", "nodes": [{"kind": "graph", "name": "mdp", "map_over": ["x"], "map_mode": "zip", "clone": clone if isinstance(clone, bool) else False,
                                     "graph": {"name": "mdp", "nodes": [
                                         {"kind": "fn", "name": "mdf", "params": [{"name": "y"}, {"name": "x", "default": [[1], [2]]}], "outs": ["md_o"], "beh": "snapshot", "beh_param": "x"}], "order": [0]}}], "order": [0]}


def _mapnode_alone(clone, ren: bool, mo: str, flav: str, inp: dict, defx: bool = False) -> list:
    rt = Runtime(schedule={"mode": "delay", "seed": 0, "choices": [0]})
    with patched(rt):
        graph, _ = build(_mapdef_spec(clone) if defx else _mapnode_spec(clone, ren, mo), rt, flav)
        if flav == "sync":
            return _summ(call_sync(rt, lambda: make_runner("sync", rt).run(graph, inp)))
        return _summ(call_async(rt, [lambda: make_runner("async", rt).run(graph, inp)])[0])


class _Pool:
    """Long-lived objects of one history: compiled graphs (sync and async flavour), runners, bound object."""

    def __init__(self, doc: dict, rt: Runtime) -> None:
        self.rt = rt
        self.cfg_obj = {"k": [1, 2, 3]}
        self.graphs: dict[tuple, object] = {}
        self.comps: list = []
        for gi, spec in enumerate(doc["progs"]):
            for flav in ("sync", "async"):
                graph, comp = build(spec, rt, flav, bind={"cfg": self.cfg_obj})
                self.graphs[(gi, flav)] = graph
                self.comps.append(comp)
        # structurally identical graphs that differ only in their entry-point configuration (derived from the same objects)
        self.graphs_ep = {k: g.with_entrypoint(doc["progs"][k[0]]["use"]) for k, g in self.graphs.items()}
        # a mapping node whose inner graph binds an object: it must reach the function as that very object, clone or not
        self.mapnode: dict[tuple, tuple] = {}
        for clone_key, clone in (("T", True), ("F", False), ("L", ["y"])):
            for flav in ("sync", "async"):
                for ren in (False, True):
                    for mo in ("x", "xy"):
                        # (every variant's mapping node carries the SAME node name: a node name does not identify a configuration)
                        graph, comp = build(_mapnode_spec(clone, ren, mo), rt, flav)
                        self.comps.append(comp)
                        self.mapnode[(clone_key, flav, ren, mo)] = (graph, comp.nodes["mp"].graph.inputs.bound["cfgi"])
        self.twins: dict[tuple, object] = {}
        for flav in ("sync", "async"):
            for which in ("a", "b"):
                for nested in (False, True):
                    graph, comp = build(_twin_spec(which, nested), rt, flav)
                    self.comps.append(comp)
                    self.twins[(flav, which, nested)] = graph
        self.mapdef: dict[tuple, object] = {}
        for clone in (True, False):
            for flav in ("sync", "async"):
                graph, comp = build(_mapdef_spec(clone), rt, flav)
                self.comps.append(comp)
                self.mapdef[(clone, flav)] = graph
        # two sibling nested graphs that each bind the SAME parameter name to their own object (two agents, each with its own client):
        # every function receives the object bound on ITS graph; an explicit binding on the enclosing graph overrides both
        self.siblings: dict[tuple, tuple] = {}
        for flav in ("sync", "async"):
            for ob in (False, True):
                spec = {"name": "sib", "nodes": [
                    {"kind": "graph", "name": "SA", "graph": {"name": "SA", "bind": {"cfgs": {"who": ["A"]}}, "nodes": [{"kind": "fn", "name": "sa", "params": [{"name": "x"}, {"name": "cfgs"}], "outs": ["sa_o"]}], "order": [0]}},
                    {"kind": "graph", "name": "SB", "graph": {"name": "SB", "bind": {"cfgs": {"who": ["B"]}}, "nodes": [{"kind": "fn", "name": "sb", "params": [{"name": "x"}, {"name": "cfgs"}], "outs": ["sb_o"]}], "order": [0]}},
                ], "order": [0, 1]}
                outer_obj = {"who": ["outer"]}
                if not ob:
                    # built incrementally: the first nested graph, a binding of the outer graph's own, then add_nodes() for the sibling
                    spec = dict(spec, add_nodes_after=1, bind={"x": 0})
                graph, comp = build(spec, rt, flav, bind={"cfgs": outer_obj} if ob else None)
                self.comps.append(comp)
                self.siblings[(flav, ob)] = (graph, comp.nodes["SA"].graph.inputs.bound["cfgs"], comp.nodes["SB"].graph.inputs.bound["cfgs"], outer_obj)
                if not ob:
                    # the same pair one nesting level further down (plain, and mapped over x)
                    for depth in (2, "2map"):
                        inner_spec = {k_: v_ for k_, v_ in spec.items() if k_ not in ("add_nodes_after", "bind")}
                        inner_spec["name"] = "MID"
                        mid = {"kind": "graph", "name": "MID", "graph": inner_spec}
                        if depth == "2map":
                            mid.update({"map_over": ["x"], "map_mode": "zip"})
                        g2, c2 = build({"name": "sibtop", "nodes": [mid], "order": [0]}, rt, flav)
                        self.comps.append(c2)
                        self.siblings[(flav, depth)] = (g2, c2.nodes["SA"].graph.inputs.bound["cfgs"], c2.nodes["SB"].graph.inputs.bound["cfgs"], None)
        # an auto-resolving interrupt with two outputs and a signal, whose handler returns ONE shared dict object on every call
        spec = {"name": "sr", "nodes": [
            {"kind": "interrupt", "name": "srq", "params": [{"name": "x"}], "outs": ["sra", "srb"], "emit": ["srs"], "script": [], "async_handler": True, "shared_resp": True},
            {"kind": "fn", "name": "srw", "params": [{"name": "sra"}], "outs": ["srw_o"], "wait_for": ["srs"]}], "order": [0, 1]}
        self.sharedresp, comp = build(spec, rt, "async")
        self.comps.append(comp)
        from hypergraph import InMemoryCache

        mode = doc.get("cache")
        shared = InMemoryCache() if mode == "shared" else None

        def _cache():
            return shared if mode == "shared" else (InMemoryCache() if mode == "per_runner" else None)

        self.sync_runners = [make_runner("sync", rt, _cache()) for _ in range(2)]
        self.async_runners = [make_runner("async", rt, _cache()) for _ in range(3)]
        self.defaults0 = {(ci, k): canon(getattr(f, "__defaults__", None)) for ci, c in enumerate(self.comps) for k, f in c.funcs.items()}

    def defaults_now(self) -> dict:
        return {(ci, k): canon(getattr(f, "__defaults__", None)) for ci, c in enumerate(self.comps) for k, f in c.funcs.items()}


def _inputs(x: int) -> dict:
    return {"x": x, "y": [x, x + 1]}  # a mutable value in the caller's mapping


def _inputs_for(doc: dict, gi: int, x: int, ep: bool) -> dict:
    if not ep:
        return _inputs(x)
    return {"y": [x, x + 1], doc["progs"][gi]["last"]: [700 + x]}  # upstream value supplied by the caller


def _split(inp: dict, kw: bool) -> tuple[dict, dict]:
    """Some calls pass part of the inputs as keyword arguments next to the values mapping."""
    if not kw:
        return inp, {}
    y = inp.pop("y")
    return inp, {"y": y}


def _alone(doc: dict, gi: int, x: int, flav: str, *, map_xs=None, ep: bool = False) -> list:
    """The same operation executed alone on freshly compiled objects."""
    rt = Runtime(schedule={"mode": "delay", "seed": 0, "choices": [0]})
    with patched(rt):
        graph, _ = build(doc["progs"][gi], rt, flav, bind={"cfg": {"k": [1, 2, 3]}})
        if ep:
            graph = graph.with_entrypoint(doc["progs"][gi]["use"])
            inp = _inputs_for(doc, gi, x, True)
            if flav == "sync":
                r = make_runner("sync", rt)
                return _summ(call_sync(rt, lambda: r.run(graph, inp)))
            r = make_runner("async", rt)
            return _summ(call_async(rt, [lambda: r.run(graph, inp)])[0])
        if flav == "sync":
            r = make_runner("sync", rt)
            if map_xs is not None:
                out = call_sync(rt, lambda: r.map(graph, {"x": list(map_xs), "y": [0, 1]}, map_over="x"))
            else:
                out = call_sync(rt, lambda: r.run(graph, _inputs(x)))
        else:
            r = make_runner("async", rt)
            if map_xs is not None:
                out = call_async(rt, [lambda: r.map(graph, {"x": list(map_xs), "y": [0, 1]}, map_over="x")])[0]
            else:
                out = call_async(rt, [lambda: r.run(graph, _inputs(x))])[0]
    return _summ(out)


def _summ(out: dict) -> list:
    if out["status"] == "list":
        return ["list", [[it["status"], canon(it["values"])] for it in out["items"]]]
    return [out["status"], canon(out["values"]), out["error"]]


def run_case(doc: dict) -> dict:
    res = empty_result()
    viol: list = []
    rt = Runtime()
    overlapped = 0
    mutating_runs = 0
    ref_cache: dict = {}

    def ref(gi, x, flav, map_xs=None, ep=False):
        key = (gi, x, flav, tuple(map_xs) if map_xs is not None else None, ep)
        if key not in ref_cache:
            ref_cache[key] = _alone(doc, gi, x, flav, map_xs=map_xs, ep=ep)
            res["runs"] += 1
        return ref_cache[key]

    with patched(rt):
        pool = _Pool(doc, rt)
        for oi, op in enumerate(doc["ops"]):
            tag = f"op{oi}[{op['op']}]"
            if op["op"] == "sync":
                ep = bool(op.get("ep"))
                inp, kwi = _split(_inputs_for(doc, op["g"], op["x"], ep), op.get("kw"))
                keep = dict(inp)
                r = pool.sync_runners[op["runner"]]
                g = (pool.graphs_ep if ep else pool.graphs)[(op["g"], "sync")]
                rt.schedule = {}
                out = call_sync(rt, lambda: r.run(g, inp, **kwi), call_id=f"op{oi}")
                res["runs"] += 1
                mutating_runs += 1
                _compare(tag, _summ(out), ref(op["g"], op["x"], "sync", ep=ep), viol)
                _caller_dict(tag, inp, keep, viol)
            elif op["op"] == "async":
                ep = bool(op.get("ep"))
                inp, kwi = _split(_inputs_for(doc, op["g"], op["x"], ep), op.get("kw"))
                keep = dict(inp)
                r = pool.async_runners[op["runner"]]
                g = (pool.graphs_ep if ep else pool.graphs)[(op["g"], "async")]
                rt.schedule = op["cfg"]["schedule"]
                rt.decisions = []
                kw = dict({"max_concurrency": op["k"]} if op["k"] else {}, **kwi)
                out = call_async(rt, [lambda: r.run(g, inp, **kw)], shuffle_seed=op["cfg"].get("shuffle"), call_ids=[f"op{oi}"], limits=[op["k"]])[0]
                res["runs"] += 1
                mutating_runs += 1
                res["sim_time"] += (out.get("sim") or {}).get("t_end") or 0
                res["steps"] += (out.get("sim") or {}).get("steps") or 0
                _compare(tag, _summ(out), ref(op["g"], op["x"], "async", ep=ep), viol)
                _caller_dict(tag, inp, keep, viol)
            elif op["op"] == "sharedresp":
                rt.schedule = op["cfg"]["schedule"]
                rt.decisions = []
                inp = {"x": op["x"]}
                out = call_async(rt, [lambda: pool.async_runners[op["runner"]].run(pool.sharedresp, inp)], shuffle_seed=op["cfg"].get("shuffle"), call_ids=[f"op{oi}"])[0]
                res["runs"] += 1
                res["stats"]["shared_handler_dict_ops"] = res["stats"].get("shared_handler_dict_ops", 0) + 1
                if out["status"] != "completed":
                    viol.append((f"{tag}:run_with_shared_handler_answer_not_completed", {"status": out["status"], "error": out["error"]}))
                for (nname, _c), obj in (rt.__dict__.get("shared_responses") or {}).items():
                    if sorted(obj) != ["sra", "srb"]:
                        viol.append((f"{tag}:handler_owned_dict_modified", {"node": nname, "keys_now": sorted(map(str, obj))}))
                        break
            elif op["op"] == "twins":
                flav = "sync" if op["sync"] else "async"
                nested = bool(op.get("nested"))
                seq = ["a", "b"] if op["first"] == "a" else ["b", "a"]
                for which in (seq[:1] if nested else seq):
                    g = pool.twins[(flav, which, nested)]
                    inp = {"ta": op["x"], "tb": op["x"] + 10}
                    if flav == "sync":
                        rt.schedule = {}
                        out = call_sync(rt, lambda: pool.sync_runners[op["runner"]].run(g, inp), call_id=f"op{oi}{which}")
                    else:
                        rt.schedule = op["cfg"]["schedule"]
                        rt.decisions = []
                        out = call_async(rt, [lambda: pool.async_runners[op["runner"]].run(g, inp)], shuffle_seed=op["cfg"].get("shuffle"), call_ids=[f"op{oi}{which}"])[0]
                    res["runs"] += 2
                    _compare(f"{tag}[{which}]", _summ(out), _twin_alone(which, nested, flav, dict(inp)), viol)
                res["stats"]["same_node_name_different_wiring_ops"] = res["stats"].get("same_node_name_different_wiring_ops", 0) + 1
            elif op["op"] == "siblings":
                flav = "sync" if op["sync"] else "async"
                ob = bool(op.get("outer_bind"))
                depth = op.get("depth", 1)
                if depth in (2, "2map"):
                    ob = False
                    g, obj_a, obj_b, obj_outer = pool.siblings[(flav, depth)]
                else:
                    g, obj_a, obj_b, obj_outer = pool.siblings[(flav, ob)]
                inp = {"x": [op["x"], op["x"] + 1] if depth == "2map" else op["x"]}
                given = None
                if op.get("provide") == "A_obj":
                    given = obj_a  # the caller passes, explicitly, the very object one of the graphs has bound
                elif op.get("provide") == "other":
                    given = {"who": ["caller"]}
                if given is not None:
                    inp["cfgs"] = given
                h0 = len(rt.history)
                if flav == "sync":
                    rt.schedule = {}
                    out = call_sync(rt, lambda: pool.sync_runners[op["runner"]].run(g, inp), call_id=f"op{oi}")
                else:
                    rt.schedule = op["cfg"]["schedule"]
                    rt.decisions = []
                    out = call_async(rt, [lambda: pool.async_runners[op["runner"]].run(g, inp)], shuffle_seed=op["cfg"].get("shuffle"), call_ids=[f"op{oi}"])[0]
                res["runs"] += 1
                if out["status"] != "completed":
                    viol.append((f"{tag}:sibling_graphs_run_not_completed", {"status": out["status"], "error": out["error"]}))
                want = {"sa": obj_outer if ob else obj_a, "sb": obj_outer if ob else obj_b}
                if given is not None:
                    want = {"sa": given, "sb": given}  # a value supplied by the caller wins over every binding, at every depth
                for h in rt.history[h0:]:
                    if h["k"] == "enter" and h["n"] in want and h["objs"].get("cfgs") is not want[h["n"]]:
                        viol.append((f"{tag}:bound_value_of_a_sibling_graph_reached_the_function", {"node": h["n"], "received": h["a"].get("cfgs"), "expected_object": want[h["n"]], "outer_binding": ob, "depth": depth, "caller_supplied": op.get("provide")}))
                        break
                res["stats"]["sibling_binding_ops"] = res["stats"].get("sibling_binding_ops", 0) + 1
            elif op["op"] == "mapnode":
                flav = "sync" if op["sync"] else "async"
                ck = "T" if op["clone"] is True else ("F" if op["clone"] is False else "L")
                mo = op.get("mo", "x")
                if op.get("defx"):
                    g = pool.mapdef[(op["clone"] is True, flav)]
                    for rep in range(2):
                        inp = {"y": 5 + rep}
                        if flav == "sync":
                            rt.schedule = {}
                            out = call_sync(rt, lambda: pool.sync_runners[op["runner"]].run(g, inp), call_id=f"op{oi}r{rep}")
                        else:
                            rt.schedule = op["cfg"]["schedule"]
                            rt.decisions = []
                            out = call_async(rt, [lambda: pool.async_runners[op["runner"]].run(g, inp)], shuffle_seed=op["cfg"].get("shuffle"), call_ids=[f"op{oi}r{rep}"])[0]
                        exp = _mapnode_alone(op["clone"], False, "x", flav, dict(inp), defx=True)
                        res["runs"] += 2
                        _compare(f"{tag}[mapped_default,run{rep}]", _summ(out), exp, viol)
                    res["stats"]["mapped_signature_default_ops"] = res["stats"].get("mapped_signature_default_ops", 0) + 1
                    continue
                g, bound_obj = pool.mapnode[(ck, flav, bool(op.get("renamed")), mo)]
                inp = {"x": list(op["xs"]), "y": [5, 6]} if mo == "x" else {"x": list(op["xs"]), "y": [50 + j for j in range(len(op["xs"]))]}
                h0 = len(rt.history)
                if flav == "sync":
                    rt.schedule = {}
                    out = call_sync(rt, lambda: pool.sync_runners[op["runner"]].run(g, inp), call_id=f"op{oi}")
                else:
                    rt.schedule = op["cfg"]["schedule"]
                    rt.decisions = []
                    out = call_async(rt, [lambda: pool.async_runners[op["runner"]].run(g, inp)], shuffle_seed=op["cfg"].get("shuffle"), call_ids=[f"op{oi}"])[0]
                res["runs"] += 1
                if out["status"] != "completed":
                    viol.append((f"{tag}:mapping_node_run_not_completed", {"status": out["status"], "error": out["error"]}))
                exp = _mapnode_alone(op["clone"], bool(op.get("renamed")), mo, flav, copy.deepcopy(inp))
                res["runs"] += 1
                _compare(tag, _summ(out), exp, viol)
                for h in rt.history[h0:]:
                    if h["k"] == "enter" and h["n"] == "mf" and h["objs"].get("cfgi") is not bound_obj:
                        viol.append((f"{tag}:inner_bound_value_copied_by_mapping_node", {"clone": op["clone"]}))
                        break
                res["stats"]["mapnode_ops"] = res["stats"].get("mapnode_ops", 0) + 1
            elif op["op"] == "batch":
                split = [_split(_inputs_for(doc, r_["g"], r_["x"], bool(r_.get("ep"))), r_.get("kw")) for r_ in op["runs"]]
                inps = [a_ for a_, _b in split]
                kwis = [b_ for _a, b_ in split]
                keeps = [dict(i) for i in inps]
                rt.schedule = op["cfg"]["schedule"]
                rt.decisions = []
                facs = []
                for j, r_ in enumerate(op["runs"]):
                    runner = pool.async_runners[r_["runner"]]
                    g = (pool.graphs_ep if r_.get("ep") else pool.graphs)[(r_["g"], "async")]
                    kw = dict({"max_concurrency": r_["k"]} if r_["k"] else {}, **kwis[j])
                    if r_.get("cancel_after") is not None:
                        import asyncio

                        facs.append(lambda runner=runner, g=g, i=inps[j], kw=kw, t=r_["cancel_after"]: asyncio.wait_for(runner.run(g, i, **kw), timeout=t))
                    else:
                        facs.append(lambda runner=runner, g=g, i=inps[j], kw=kw: runner.run(g, i, **kw))
                h0 = len(rt.history)
                outs = call_async(rt, facs, shuffle_seed=op["cfg"].get("shuffle"), call_ids=[f"op{oi}c{j}" for j in range(len(facs))], limits=[r_["k"] for r_ in op["runs"]])
                res["runs"] += len(facs)
                mutating_runs += len(facs)
                res["sim_time"] += (outs[0].get("sim") or {}).get("t_end") or 0
                res["steps"] += (outs[0].get("sim") or {}).get("steps") or 0
                # did two calls overlap? (an enter of call B between enter and exit of call A)
                open_calls: dict[str, int] = {}
                for h in rt.history[h0:]:
                    if h["k"] == "enter":
                        open_calls[h["c"]] = open_calls.get(h["c"], 0) + 1
                        if len([c for c, n in open_calls.items() if n > 0]) >= 2:
                            overlapped += 1
                            break
                    elif h["k"] in ("exit", "raise"):
                        open_calls[h["c"]] = open_calls.get(h["c"], 0) - 1
                for j, (out, r_) in enumerate(zip(outs, op["runs"])):
                    if r_.get("cancel_after") is not None and out["status"] == "raised" and out["error"] and out["error"][0] in ("TimeoutError", "CancelledError"):
                        res["stats"]["fault_run_cancelled_by_timeout"] = res["stats"].get("fault_run_cancelled_by_timeout", 0) + 1
                        _caller_dict(f"{tag}#{j}", inps[j], keeps[j], viol)
                        continue
                    _compare(f"{tag}#{j}", _summ(out), ref(r_["g"], r_["x"], "async", ep=bool(r_.get("ep"))), viol)
                    _caller_dict(f"{tag}#{j}", inps[j], keeps[j], viol)
                    if out["status"] in ("deadlock", "step_cap"):
                        viol.append((f"{tag}#{j}:{out['status']}", {}))
            else:  # map
                flav = "sync" if op["sync"] else "async"
                inp = {"x": list(op["xs"]), "y": [0, 1]}
                keep = dict(inp)
                g = pool.graphs[(op["g"], flav)]
                if flav == "sync":
                    r = pool.sync_runners[op["runner"]]
                    rt.schedule = {}
                    out = call_sync(rt, lambda: r.map(g, inp, map_over="x"), call_id=f"op{oi}")
                else:
                    r = pool.async_runners[op["runner"]]
                    rt.schedule = op["cfg"]["schedule"]
                    rt.decisions = []
                    kw = {"max_concurrency": op["k"]} if op["k"] else {}
                    out = call_async(rt, [lambda: r.map(g, inp, map_over="x", **kw)], shuffle_seed=op["cfg"].get("shuffle"), call_ids=[f"op{oi}"], limits=[op["k"]])[0]
                res["runs"] += 1
                mutating_runs += len(op["xs"])
                _compare(tag, _summ(out), ref(op["g"], 0, flav, map_xs=op["xs"]), viol)
                _caller_dict(tag, inp, keep, viol)
        # after the whole history
        now = pool.defaults_now()
        changed = sorted(str(k) for k in now if now[k] != pool.defaults0[k])
        if changed:
            viol.append(("function_signature_defaults_mutated", {"functions": changed[:4]}))
        for h in rt.history:
            if h["k"] == "enter" and "cfg" in h.get("objs", {}):
                if h["objs"]["cfg"] is not pool.cfg_obj:
                    viol.append(("bound_value_did_not_reach_function_as_the_bound_object", {"node": h["n"], "call": h["c"]}))
                    break
        for c, d in rt.violations:
            viol.append((f"monitor:{c}", d))
        if canon(pool.cfg_obj) != canon({"k": [1, 2, 3]}):
            viol.append(("bound_object_modified", {"now": pool.cfg_obj}))
    res["violations"] = viol
    res["nontrivial"] = overlapped > 0 or mutating_runs >= 2
    res["stats"]["probe_runs_overlapped_in_simulated_time"] = overlapped
    res["stats"]["mutating_runs"] = mutating_runs
    for k_, v_ in rt.probes.items():
        if k_ != "time_reads":
            res["stats"]["probe_" + k_] = v_
    if rt.decision_log:
        res["stats"]["fault_hold_open_releases"] = len(rt.decision_log)
    res["shape"] = digest([gen.shape_of(p) for p in doc["progs"]], 8)
    res["sched"] = digest([[o["op"], canon({k: v for k, v in o.items() if k != "cfg"})] for o in doc["ops"]], 6)
    res["sig"] = digest([res["shape"], res["sched"], digest([(h["k"], h.get("key")) for h in rt.history if h["k"] in ("enter", "exit")], 6)], 8)
    res["hdigest"] = hist_digest([rt])
    return res


def _compare(tag: str, got: list, exp: list, viol: list) -> None:
    if got != exp:
        viol.append((f"{tag}:result_differs_from_isolated_run", {"got": got, "isolated": exp}))


def _caller_dict(tag: str, inp: dict, keep: dict, viol: list) -> None:
    if set(inp) != set(keep) or any(inp[k] is not keep[k] for k in keep):
        viol.append((f"{tag}:caller_input_mapping_modified", {"keys_now": sorted(inp), "keys_before": sorted(keep)}))
    elif any(canon(inp[k]) != canon(_inputs(inp["x"])[k]) for k in ("y",) if isinstance(inp.get("x"), int) and k in inp and not isinstance(inp.get("x"), bool)):
        viol.append((f"{tag}:caller_input_value_mutated", {"now": inp}))


def shrink_candidates(doc: dict):
    if len(doc["ops"]) > 1:
        for i in range(len(doc["ops"])):
            c = copy.deepcopy(doc)
            del c["ops"][i]
            yield c
    simple = {"schedule": {"mode": "delay", "seed": 0, "choices": [0], "delays": {}}, "shuffle": None, "max_concurrency": None}
    for i, op in enumerate(doc["ops"]):
        if op["op"] == "batch" and len(op["runs"]) > 2:
            for j in range(len(op["runs"])):
                c = copy.deepcopy(doc)
                del c["ops"][i]["runs"][j]
                yield c
        if op["op"] == "batch":
            for j, r_ in enumerate(op["runs"]):
                if r_["k"] is not None:
                    c = copy.deepcopy(doc)
                    c["ops"][i]["runs"][j]["k"] = None
                    yield c
        if "cfg" in op and op["cfg"] != simple:
            c = copy.deepcopy(doc)
            c["ops"][i]["cfg"] = simple
            yield c
        if op["op"] == "map" and len(op["xs"]) > 1:
            c = copy.deepcopy(doc)
            c["ops"][i]["xs"] = op["xs"][:-1]
            yield c
    for pi, p in enumerate(doc["progs"]):
        nodes = p["nodes"]
        for ni, nd in enumerate(nodes):
            if nd["name"].endswith("side"):
                c = copy.deepcopy(doc)
                del c["progs"][pi]["nodes"][ni]
                c["progs"][pi]["order"] = list(range(len(c["progs"][pi]["nodes"])))
                yield c


def signature(doc: dict, cls: str, detail) -> str:
    return cls.split(":", 1)[-1]


def sample_repr(doc: dict, res: dict):
    def brief(gr):
        out = []
        for nd in gr["nodes"]:
            if nd["kind"] == "graph":
                out.append({nd["name"]: brief(nd["graph"])})
            else:
                out.append([nd["name"], [p["name"] + ("=[]" if "default" in p else "") for p in nd["params"]], nd["outs"]])
        return out

    ops = []
    for o in doc["ops"]:
        if o["op"] == "batch":
            ops.append(["batch", [[r["g"], "runner%d" % r["runner"], "x=%d" % r["x"], "k=%s" % r["k"]] for r in o["runs"]], o["cfg"]["schedule"]["mode"]])
        else:
            ops.append([o["op"], {k: v for k, v in o.items() if k not in ("cfg", "op")}])
    return {"graphs": [brief(p) for p in doc["progs"]], "history": ops}


LEVEL_TEXT = (
    "Seeded exploration of run HISTORIES on long-lived graph and runner objects, including batches of concurrent top-level async runs on one simulated "
    "loop whose interleaving the simulator decides; every run is compared with the same operation executed alone on freshly compiled objects, function "
    "__defaults__ are compared before/after the history, bound objects are checked by identity at every function entry, the caller's mapping is checked "
    "by key set and value identity, and the in-flight monitor enforces each concurrent call's own max_concurrency."
)
LEVEL_NOTE = "Reference = isolated run on fresh objects (differential). Trusts the identity bookkeeping in hgsim/rt.py (the very argument objects are kept per invocation)."
TECHNIQUE = "deterministic simulation of sequential and concurrent run histories on shared objects; isolated run as reference + identity/mutation monitors"
DESIGN_REF = "DESIGN.md §4 C18"
