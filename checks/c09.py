"""C09 — caching is transparent, even with eviction, corruption or a torn write."""

from __future__ import annotations

import copy
import os
import random
import shutil
import tempfile

from hgsim import gen
from hgsim.case import BuildError, fault_counts, fill_values, hist_digest, run_world, sim_stats
from hgsim.driver import empty_result
from hgsim.procs import SyncProc
from hgsim.rt import ProcessDeath
from hgsim.spec import iter_nodes
from hgsim.stores import CacheWorld, DiskSeams, FakeDisk, LruModel, PickleShim, RecordingBackend
from hgsim.util import canon, digest, mix

ID = "C09"
LEVEL = "fault_enumeration"
BUDGET = {"quick": (8, 150, 90), "thorough": (16, 3000, 600)}
RULE = (
    "two seeded workloads. (mem) general programs with a random subset of function nodes and gates cacheable, plus deliberately shared functions "
    "(two nodes from one function object with different output names; two if/else gates from one function with different targets); a history of "
    "2-6 runs (SyncRunner and AsyncRunner under SimLoop, same or varied inputs) shares one backend: InMemoryCache unbounded, InMemoryCache(max_size "
    "1..3) or a harness CacheBackend with forced evictions; spurious misses injected. (disk) DiskCache on an in-memory fake of the diskcache library "
    "(thorough tier: additionally the real library): after a warm run EVERY stored entry x EVERY corruption class (bit flip, truncation, type change, "
    "missing signature, missing payload, signature of wrong type, altered signature, another entry's authentic payload, another entry's authentic payload+signature) is injected, then every "
    "write index of a cold run x {lost write, crash before, crash after} followed by restarts on the surviving store, then key-file truncation / "
    "deletion / replacement across a restart. Non-trivial = a hit was served or an injected cache fault fired on a stored entry; distinct = digest "
    "of (program shape, cache flags, backend, history / fault point)."
    ' Further: cacheable nodes with emit outputs on DiskCache, two gates sharing one function with equal targets but different emit names, two graphs that differ in one node (extra emit / sibling closure made by the same file-defined factory) sharing one cache, a long-lived DiskCache object serving warm run, hit and damaged lookups; cacheable nodes that return / receive an unpicklable value (in-memory histories); the same two-parameter function with its inputs wired crosswise in the variant graph (equal graph-level inputs, different arguments); disk class unloadable: an authentic entry whose object the upgraded program can no longer load (loader raises ValueError/AttributeError/KeyError/ImportError). Interpreter restart probe: definition hashes of a battery of callables (set literals, functools.wraps, bound methods, classmethods, closures over plain objects / sets / deep lists) computed in two fresh interpreter processes with different hash seeds must agree, differ for different definitions, and never make node construction fail.'
)
ASSUMPTIONS = [
    "values are immutable (InMemoryCache shares objects by reference)",
    "generated node functions have distinct code, so equal definition hashes mean one function object was deliberately shared",
    "quick tier replaces the diskcache library by an in-memory store with the same get/set/delete contract; sqlite-level behaviour is exercised only by the thorough tier",
]

CORRUPTIONS = ["bitflip", "truncate", "type", "drop_hmac", "drop_payload", "hmac_type", "hmac_flip", "hmac_nonascii", "swap_payload", "swap_entry", "unloadable"]


# ------------------------------------------------------------------ programs
def _mark_cache(g: dict, rng: random.Random, p: float) -> int:
    n = 0
    for nd, _d, _p in iter_nodes(g):
        if nd["kind"] in ("fn", "route", "ifelse") and rng.random() < p:
            nd["cache"] = True
            n += 1
    return n


def _add_shared(g: dict, rng: random.Random) -> list[str]:
    """Deliberately share one function object between two nodes / two gates."""
    shared: list[str] = []
    fns = [nd for nd in g["nodes"] if nd["kind"] == "fn" and nd.get("outs") and not nd.get("blk") and not nd.get("emit") and not nd.get("wait_for")]
    if fns and rng.random() < 0.7:
        x = rng.choice(fns)
        x["cache"] = True
        x["fid"] = x["name"]
        twin = {"kind": "fn", "name": x["name"] + "c", "fid": x["name"], "params": copy.deepcopy(x["params"]), "outs": [o + "c" for o in x["outs"]], "cache": True}
        g["nodes"].append(twin)
        g["order"].append(len(g["nodes"]) - 1)
        shared.append(x["name"])
    if rng.random() < 0.5:
        avail = [nd for nd in g["nodes"] if nd["kind"] == "fn" and not nd.get("blk")]
        srcs = [e for e in g["own_ext"]]
        if len(avail) >= 2 and srcs:
            a, b = rng.sample(avail, 2)
            src = rng.choice(srcs)
            pspec = {"name": src}
            for nd in g["nodes"]:
                for q in nd.get("params", []):
                    if q["name"] == src and "default" in q:
                        pspec["default"] = q["default"]
            for nm, tgt in (("sgA", a["name"]), ("sgB", b["name"])):
                g["nodes"].append({"kind": "ifelse", "name": nm, "fid": "sg", "params": [dict(pspec)], "when_true": tgt, "when_false": "@END", "default_open": False, "cache": True, "decide": {"op": "mod", "choices": [True, True, False]}})
                g["order"].append(len(g["nodes"]) - 1)
            shared.append("sg")
    if rng.random() < 0.4:
        avail = [nd for nd in g["nodes"] if nd["kind"] == "fn" and not nd.get("blk")]
        if avail:
            t = rng.choice(avail)["name"]
            for nm in ("seA", "seB"):
                g["nodes"].append({"kind": "route", "name": nm, "fid": "se", "params": [], "targets": [t, "@END"], "default_open": True, "cache": True, "emit": [nm + "_done"], "decide": {"op": "const", "value": t}})
                g["nodes"].append({"kind": "fn", "name": nm + "_w", "params": [], "outs": [nm + "_wo"], "wait_for": [nm + "_done"]})
                g["order"] += [len(g["nodes"]) - 2, len(g["nodes"]) - 1]
            shared.append("se")
    if rng.random() < 0.4 and g["own_ext"]:
        # closure twins: two cacheable nodes made by one file-defined factory (identical source text, different
        # captured variable) reading the same input
        src = rng.choice(g["own_ext"])
        has_default = any(q["name"] == src and "default" in q for other in g["nodes"] for q in other.get("params", []))
        if not has_default:
            # graph A holds the closure made with key clA; the variant graph B holds its sibling made with key clB
            # under the same node name and output name (see _variant_graph)
            ck = rng.choice([None, None, "lambda", "method", "names"])
            if ck:
                g["nodes"].append({"kind": "fn", "name": "cl", "fid": "ckA", "closure": True, "ckind": ck, "ckind_which": "A", "params": [{"name": "a"}], "rename_inputs": {"a": src}, "outs": ["cl_o"], "cache": True})
            elif rng.random() < 0.5:
                g["nodes"].append({"kind": "fn", "name": "cl", "fid": "clA", "closure": True, "params": [{"name": "a"}], "rename_inputs": {"a": src}, "outs": ["cl_o"], "cache": True})
            else:
                # siblings capturing values of different type that print alike: 1 and "1"
                g["nodes"].append({"kind": "fn", "name": "cl", "fid": "cl:1", "closure": True, "salt_base": "cl", "salt": 1, "params": [{"name": "a"}], "rename_inputs": {"a": src}, "outs": ["cl_o"], "cache": True})
            g["order"].append(len(g["nodes"]) - 1)
            shared.append("closure_twins")
    if rng.random() < 0.3:
        avail = [nd for nd in g["nodes"] if nd["kind"] == "fn" and not nd.get("blk") and not nd.get("closure")]
        if len(avail) >= 2:
            # two route gates sharing one function, with the SAME declared targets but different fallbacks; the function
            # answers None, so each gate routes to its own fallback
            t1, t2 = [x["name"] for x in rng.sample(avail, 2)]
            for nm, fb in (("sfA", t1), ("sfB", t2)):
                g["nodes"].append({"kind": "route", "name": nm, "fid": "sf", "params": [], "targets": [t1, t2], "fallback": fb, "default_open": False, "cache": True, "decide": {"op": "const", "value": None}})
                g["order"].append(len(g["nodes"]) - 1)
            shared.append("sf")
    if rng.random() < 0.3:
        avail = [nd for nd in g["nodes"] if nd["kind"] == "fn" and not nd.get("blk") and not nd.get("closure")]
        if len(avail) >= 2:
            # two if/else gates sharing one predicate and the SAME two targets in SWAPPED roles (when_true/when_false exchanged):
            # the stored decision is a target name, so the order of the targets is part of the gate's identity
            t1, t2 = [x["name"] for x in rng.sample(avail, 2)]
            val = rng.random() < 0.5
            for nm, (a_, b_) in (("sxA", (t1, t2)), ("sxB", (t2, t1))):
                g["nodes"].append({"kind": "ifelse", "name": nm, "fid": "sx", "params": [], "when_true": a_, "when_false": b_, "default_open": False, "cache": True, "decide": {"op": "const", "value": val}})
                g["order"].append(len(g["nodes"]) - 1)
            shared.append("sx")
    if rng.random() < 0.3:
        # a cacheable node that consumes (mutates in place) a list argument; the history also calls it with the emptied list
        g["nodes"].append({"kind": "fn", "name": "dr", "params": [{"name": "drq"}], "outs": ["dr_o"], "cache": True, "beh": "drain", "beh_param": "drq"})
        g["order"].append(len(g["nodes"]) - 1)
        g["ext"].append("drq")
        shared.append("drain")
    if rng.random() < 0.3:
        # a cacheable node whose argument comes, from run to run, as a list, a set, a dict, a list of pairs, a tuple, a frozenset
        g["nodes"].append({"kind": "fn", "name": "ct", "params": [{"name": "ctq"}], "outs": ["ct_o"], "cache": True})
        g["order"].append(len(g["nodes"]) - 1)
        g["ext"].append("ctq")
        shared.append("container_types")
    if rng.random() < 0.3:
        # a cacheable two-parameter node; the variant graph B holds the SAME function under the same node and output name but with its
        # two inputs wired crosswise (rename_inputs swap): equal graph-level inputs, different arguments - the entry must not be shared
        g["nodes"].append({"kind": "fn", "name": "sw", "params": [{"name": "swa"}, {"name": "swb"}], "outs": ["sw_o"], "cache": True})
        g["order"].append(len(g["nodes"]) - 1)
        g["ext"] += ["swa", "swb"]
        shared.append("swapped_inputs")
    return shared


def _variant_graph(g: dict, variant: dict | None) -> dict:
    """Graph B of a history: the same program, but one cacheable function node additionally emits a signal a new node waits for."""
    if not variant:
        return g
    g2 = copy.deepcopy(g)
    if variant.get("node"):
        for nd in g2["nodes"]:
            if nd["name"] == variant["node"]:
                nd.setdefault("emit", []).append("vsig")
        g2["nodes"].append({"kind": "fn", "name": "vw", "params": [], "outs": ["vw_o"], "wait_for": ["vsig"]})
        g2["order"] = list(g2["order"]) + [len(g2["nodes"]) - 1]
    if variant.get("emit_split"):
        for nd in g2["nodes"]:
            if nd["name"] == variant["emit_split"]:
                nd["emit"] = [nd["outs"][1]]
                nd["outs"] = [nd["outs"][0]]
    if variant.get("swap"):
        for nd in g2["nodes"]:
            if nd["name"] == "sw":
                nd["rename_inputs"] = {"swa": "swb", "swb": "swa"}
    if variant.get("closure"):
        for nd in g2["nodes"]:
            if nd.get("closure"):
                if nd.get("ckind"):
                    nd["ckind_which"] = "B"
                    nd["fid"] = "ckB"
                elif "salt" in nd:
                    nd["salt"] = "1"
                    nd["fid"] = "cl:'1'"
                else:
                    nd["fid"] = "clB"  # the factory's other product: same source text, another captured value
    return g2


def run_hash_probe(doc: dict) -> dict:
    """A process restart really is a new interpreter: the definition hashes of a battery of callables are computed in two fresh
    interpreter processes with different hash seeds. Unequal hashes mean a persistent cache entry can never be hit after a restart
    (the function is invoked again although the entry is retained); equal hashes of different definitions mean they serve each other's
    entries; and building a node must not fail because of what its function captured."""
    import json as _json
    import subprocess
    import sys as _sys

    import hypergraph

    res = empty_result()
    src = os.path.dirname(os.path.dirname(os.path.abspath(hypergraph.__file__)))
    outs = []
    for hs in doc["hashseeds"]:
        env = {**os.environ, "PYTHONHASHSEED": str(hs), "PYTHONPATH": src}
        p = subprocess.run([_sys.executable, os.path.join(os.path.dirname(os.path.dirname(os.path.abspath(__file__))), "hgsim", "hashbattery.py")], capture_output=True, text=True, env=env, timeout=120)
        if p.returncode != 0:
            raise RuntimeError("hash battery failed: " + p.stderr[-300:])
        outs.append(_json.loads(p.stdout))
        res["runs"] += 1
    a, b = outs
    viol: list = []
    unstable = sorted(k for k in a["stable"] if a["stable"][k] != b["stable"][k])
    if unstable:
        viol.append(("restart:definition_hash_differs_between_interpreter_processes", {"callables": unstable}))
    collide = sorted(k for k, v in a["distinct"].items() if not v)
    if collide:
        viol.append(("restart:different_definitions_share_a_hash", {"pairs": collide}))
    unbuildable = {k: v for k, v in a["buildable"].items() if v is not True}
    if unbuildable:
        viol.append(("restart:node_cannot_be_built_because_of_what_its_function_captured", unbuildable))
    res["violations"] = viol
    res["nontrivial"] = True
    res["stats"]["fault_interpreter_restart"] = len(outs)
    res["shape"] = "hash_probe"
    res["sched"] = digest(doc["hashseeds"], 6)
    res["sig"] = digest(["hash_probe", doc["hashseeds"]], 8)
    res["hdigest"] = digest([a, b], 8)
    return res


def gen_case(rng: random.Random, tier: str) -> dict:
    if rng.random() < 0.01:
        return {"kind": "hash_probe", "hashseeds": [rng.randrange(1, 1000), rng.randrange(1000, 2000)]}
    kind = "disk" if rng.random() < 0.35 else "mem"
    if kind == "mem":
        g = gen.gen_program(rng, max_nodes=6, feats={**gen.gen_feats(rng), "maps": rng.random() < 0.3})
        _mark_cache(g, rng, 0.6)
        shared = _add_shared(g, rng) if rng.random() < 0.4 else []
        if rng.random() < 0.2:
            # a legal value that cannot be pickled (lock, client object, lambda): a cacheable node RETURNS one and a cacheable node RECEIVES it.
            # The in-memory backend keeps the output by reference; the consumer's key cannot be computed, so it simply is not cached.
            scal = [e for e in g["ext"] if e not in g["lists"]]
            if scal:
                g["nodes"].append({"kind": "fn", "name": "opq", "params": [{"name": scal[0]}], "outs": ["opq_o"], "beh": "opaque", "cache": True})
                g["nodes"].append({"kind": "fn", "name": "opq_use", "params": [{"name": "opq_o"}], "outs": ["opq_u"], "cache": True})
                g["order"] = list(g["order"]) + [len(g["nodes"]) - 2, len(g["nodes"]) - 1]
        inp = gen.program_inputs(rng, g, list_len=(1, 3))
        backend = rng.choice([{"kind": "mem", "max_size": None}, {"kind": "mem", "max_size": rng.randint(1, 3)}, {"kind": "harness"}])
        runs = []
        for _ in range(rng.randint(2, 6)):
            runs.append({
                "runner": rng.choice(["sync", "sync", "async", "async_syncfn"]),
                "variant": rng.choice([0, 0, 0, 1, 2]),
                "cfg": gen.gen_async_cfg(rng, allow_hold=False),
                "evict": rng.random() < 0.25,
                "spurious": [rng.randrange(12)] if rng.random() < 0.2 else [],
            })
        variant = None
        cands = [nd["name"] for nd in g["nodes"] if nd["kind"] == "fn" and nd.get("cache") and not nd.get("blk") and not nd.get("closure") and nd.get("fid", nd["name"]) == nd["name"] and nd["name"] + "c" not in [x["name"] for x in g["nodes"]]]
        if cands and rng.random() < 0.35:
            variant = {"node": rng.choice(cands)}
        consumed = {q["name"] for nd, _d, _p in iter_nodes(g) for q in nd.get("params", [])} | {w_ for nd, _d, _p in iter_nodes(g) for w_ in nd.get("wait_for", [])}
        split = [nd["name"] for nd in g["nodes"] if nd["kind"] == "fn" and nd.get("cache") and len(nd.get("outs", [])) == 2 and not nd.get("emit") and not nd.get("wait_for") and not nd.get("blk")
                 and not nd.get("closure") and not nd.get("beh") and nd["outs"][1] not in consumed and nd.get("fid", nd["name"]) == nd["name"] and nd["name"] not in _shared_fids(g)]
        if split and rng.random() < 0.4:
            # in the variant graph the node's second output is an ordering signal instead of a data output: same function, same
            # names, but the boundary between data and signal differs - the entry must not be shared
            variant = dict(variant or {}, emit_split=rng.choice(split))
        if "closure_twins" in shared:
            variant = dict(variant or {}, closure=True)
        if "swapped_inputs" in shared:
            variant = dict(variant or {}, swap=True)
        if variant:
            for r_ in runs:
                r_["gv"] = rng.randrange(2)
        return {"kind": "mem", "graph": g, "inputs": inp, "backend": backend, "runs": runs, "shared": shared, "variant": variant, "max_iterations": 12 if g["seeds"] else None}
    g = gen.gen_program(rng, max_nodes=5, depth=1, feats={"gates": rng.random() < 0.4, "loops": False, "nested": rng.random() < 0.3, "maps": False, "signals": rng.random() < 0.4, "edge_defaults": False})
    n = _mark_cache(g, rng, 0.75)
    if rng.random() < 0.3:
        # a cacheable node returning an object whose stored form the program can no longer load after an "upgrade" (class changed):
        # the entry is authentic, yet loading it raises - it must behave as a miss as well
        scal = [e for e in g["ext"] if e not in g["lists"]]
        if scal:
            g["nodes"].append({"kind": "fn", "name": "vz", "params": [{"name": scal[0]}], "outs": ["vz_o"], "beh": "versioned", "cache": True})
            g["nodes"].append({"kind": "fn", "name": "vz_use", "params": [{"name": "vz_o"}], "outs": ["vz_u"], "cache": True})
            g["order"] = list(g["order"]) + [len(g["nodes"]) - 2, len(g["nodes"]) - 1]
            n += 2
    inp = gen.program_inputs(rng, g)
    return {"kind": "disk", "graph": g, "inputs": inp, "fault_seed": rng.randrange(1 << 30), "async_cfg": gen.gen_async_cfg(rng, allow_hold=False), "tier": tier, "only": None, "real": False,
            "same_instance": rng.random() < 0.4}  # one long-lived DiskCache object serves the warm run, the hit and the damaged lookups


# ---------------------------------------------------------------- utilities
def _cacheable(g: dict) -> set[str]:
    return {nd.get("fid", nd["name"]) for nd, _d, _p in iter_nodes(g) if nd.get("cache")}


def _shared_fids(g: dict) -> set[str]:
    seen: dict[str, int] = {}
    for nd, _d, _p in iter_nodes(g):
        f = nd.get("fid", nd["name"])
        seen[f] = seen.get(f, 0) + 1
    return {f for f, c in seen.items() if c > 1}


def _started(proc) -> list[str]:
    return sorted(e.node_name for e in proc.events if type(e).__name__ == "NodeStartEvent")


def _variant_values(base, variant: int, ri: int = 0):
    def f(graph):
        v = copy.deepcopy(base(graph))  # node functions may consume list arguments in place
        if "drq" in v or any(n == "dr" for n in getattr(graph, "nodes", {})):
            v["drq"] = [] if variant else [3, 1, 2]
        if "ctq" in v or any(n == "ct" for n in getattr(graph, "nodes", {})):
            # equal CONTENT in different container types (and dict-like vs pairs): different arguments, different keys
            v["ctq"] = [[1, 2], {1, 2}, {"a": 1}, [("a", 1)], (1, 2), frozenset({1, 2})][(variant * 2 + ri) % 6]
        if variant:
            for k in sorted(v):
                if isinstance(v[k], int):
                    v[k] = v[k] + variant
                    break
        return v

    return f


class HarnessCache:
    """A caller-supplied CacheBackend (public protocol) whose entries the harness may evict."""

    def __init__(self) -> None:
        self.d: dict = {}

    def get(self, key):
        if key in self.d:
            return True, self.d[key]
        return False, None

    def set(self, key, value):
        self.d[key] = value


# --------------------------------------------------------------- mem history
def _run_mem(doc: dict) -> dict:
    from hypergraph import InMemoryCache

    res = empty_result()
    g = doc["graph"]
    base_values = fill_values(doc["inputs"], keep=g.get("seeds", []))
    kw = {"error_handling": "continue"}
    if doc.get("max_iterations"):
        kw["max_iterations"] = doc["max_iterations"]
    be = doc["backend"]
    inner = InMemoryCache(max_size=be["max_size"]) if be["kind"] == "mem" else HarnessCache()
    cw = CacheWorld()
    backend = RecordingBackend(inner, cw)
    online = LruModel(be.get("max_size") if be["kind"] == "mem" else None)
    offline = LruModel(be.get("max_size") if be["kind"] == "mem" else None)
    cacheable = _cacheable(g)
    shared = _shared_fids(g)
    keys_of: dict[tuple, set] = {}
    enters_count: dict[tuple, int] = {}
    misses: dict[str, int] = {}
    excused: set[str] = set()
    viol: list = []
    rts = []
    hits = 0
    op_cursor = 0
    rng = random.Random(mix("evict", doc.get("_seed", 0)))
    try:
        g_a = doc["graph"]
        g_b = _variant_graph(g_a, doc.get("variant"))
        for ri, run in enumerate(doc["runs"]):
            g = g_b if run.get("gv") else g_a  # two graphs sharing one cache
            values = _variant_values(base_values, run["variant"], ri)
            # reference: the same run on a runner without cache
            rbox: dict = {}
            wr = run_world(g, values, mode=run["runner"], cfg=run["cfg"], run_kwargs=dict(kw), processors_factory=lambda rt, b=rbox: b.setdefault("p", [SyncProc(rt, "ref")]))
            rts.append(wr["rt"])
            res["runs"] += 1
            if wr["out"]["status"] == "raised" and wr["out"]["error"] and wr["out"]["error"][0] in ("MissingInputError", "ValueError"):
                res["discard"] = "rejected_by_validation"
                return res
            # forced eviction between runs (harness backend: drop a random key; InMemoryCache: not touched)
            if run["evict"] and be["kind"] == "harness" and inner.d:
                k = sorted(inner.d)[rng.randrange(len(inner.d))]
                del inner.d[k]
                offline.evict(k)
                cw.count("cache_forced_eviction")
            cw.spurious_miss_at = {cw.n_get + i for i in run["spurious"]}
            cbox: dict = {}

            def prep(rt, graph, comp, _cw=cw):
                _cw.rt = rt

            wc = run_world(g, values, mode=run["runner"], cfg=run["cfg"], run_kwargs=dict(kw), cache=backend, prepare=prep, processors_factory=lambda rt, b=cbox: b.setdefault("p", [SyncProc(rt, "rec")]))
            cw.rt = None
            rts.append(wc["rt"])
            res["runs"] += 1
            sim_stats(res, wc["out"])
            fault_counts(wc["rt"], res["stats"])
            tag = f"run{ri}[{run['runner']}]"
            ro, co = wr["out"], wc["out"]
            # (1) transparency
            if co["status"] != ro["status"] or canon(co["error"]) != canon(ro["error"]):
                viol.append((f"{tag}:cached_status_differs_from_uncached", {"cached": [co["status"], co["error"]], "uncached": [ro["status"], ro["error"]], "backend": be}))
            elif canon(co["values"]) != canon(ro["values"]):
                cv, rv = co["values"] or {}, ro["values"] or {}
                diff = {k: (cv.get(k, "<absent>"), rv.get(k, "<absent>")) for k in sorted(set(cv) | set(rv)) if canon(cv.get(k, "<absent>")) != canon(rv.get(k, "<absent>"))}
                viol.append((f"{tag}:cached_values_differ_from_uncached", {"diff(cached,uncached)": diff, "backend": be, "shared": doc.get("shared")}))
            elif ro["status"] == "completed" and _started(cbox["p"][0]) != _started(rbox["p"][0]):
                a, b = _started(cbox["p"][0]), _started(rbox["p"][0])
                viol.append((f"{tag}:cached_routing_differs_from_uncached", {"only_cached": sorted(set(a) - set(b)), "only_uncached": sorted(set(b) - set(a)), "shared": doc.get("shared")}))
            # (2) model conformance + (3) re-invocation while retained, over this run's ops
            flavour = ("a" if run["runner"] == "async" else "s") + ("B" if run.get("gv") else "A")  # async-def functions / the variant graph's nodes are different nodes
            inv_args = {h["key"]: (h["n"], canon(h["a"]), flavour) for h in wc["rt"].history if h["k"] == "enter"}
            prev = None
            for h in wc["rt"].history:
                k = h["k"]
                if k in ("cget", "cset"):
                    if k == "cget":
                        if not h["hit"]:
                            misses[h["key"]] = misses.get(h["key"], 0) + 1
                        if h.get("spurious"):
                            excused.add(h["key"])
                            prev = h
                            continue
                        m = offline.get(h["key"])
                        if be["kind"] == "mem" and m != h["hit"]:
                            viol.append((f"{tag}:backend_answer_differs_from_lru_model", {"key": h["key"][:12], "backend_hit": h["hit"], "model_hit": m, "max_size": be["max_size"]}))
                        if h["hit"]:
                            hits += 1
                    elif k == "cset":
                        offline.set(h["key"])
                        excused.discard(h["key"])
                        owner = h.get("owner")
                        if owner and owner[1] in inv_args:
                            keys_of.setdefault(inv_args[owner[1]], set()).add(h["key"])
                    prev = h
                elif k == "enter" and h["n"] in cacheable and h["n"] not in shared and h["n"] != "ct":  # (ct: canonical text conflates list/tuple, set/frozenset)
                    ident = (h["n"], canon(h["a"]), flavour)
                    held = [K for K in keys_of.get(ident, ()) if offline.holds(K) and K not in excused]
                    n_before = enters_count.get(ident, 0)
                    enters_count[ident] = n_before + 1
                    if held:
                        # every invocation needs its own answered miss: (#invocations so far) < (#misses answered for its keys).
                        # Two equal-key nodes racing in one async step both miss first - allowed.
                        total_miss = sum(misses.get(K, 0) for K in keys_of.get(ident, ()))
                        if n_before >= total_miss:
                            viol.append((f"{tag}:function_invoked_again_while_entry_retained", {"node": h["n"], "args": h["a"], "backend": be, "invocations_before": n_before, "misses_answered": total_miss}))
                        elif run["runner"] == "sync" and prev is not None and prev["k"] == "cget" and prev["key"] not in held and not prev.get("spurious"):
                            # sync runner: the lookup directly precedes the call - it must have used the retained key
                            viol.append((f"{tag}:function_invoked_again_under_a_different_key_while_entry_retained", {"node": h["n"], "args": h["a"]}))
            if co["status"] in ("deadlock", "step_cap"):
                viol.append((f"{tag}:{co['status']}", {}))
    except BuildError:
        res["discard"] = "build_error"
        return res
    for k_, v_ in cw.counters.items():
        res["stats"]["fault_" + k_] = v_
    res["stats"]["cache_hits_served"] = hits
    if offline.evictions:
        res["stats"]["fault_cache_lru_eviction"] = offline.evictions
    if doc.get("shared"):
        res["stats"]["cases_with_shared_function"] = 1
    res["violations"] = viol
    res["nontrivial"] = hits > 0 or bool(cw.counters)
    res["shape"] = digest([gen.shape_of(g), sorted(_cacheable(g))], 8)
    res["sched"] = digest([[r["runner"], r["variant"], r["evict"], r["spurious"]] for r in doc["runs"]], 6)
    res["sig"] = digest([res["shape"], canon(doc["inputs"]), canon(be), res["sched"]], 8)
    res["hdigest"] = hist_digest(rts)
    return res


# ------------------------------------------------------------------- disk
def _corrupt(store: dict, snapshot: dict, k: str, cls: str, rng: random.Random, entries: list[str]) -> bool:
    raw = store[k]
    if cls == "bitflip":
        i = rng.randrange(len(raw))
        store[k] = raw[:i] + bytes([raw[i] ^ (1 << rng.randrange(8))]) + raw[i + 1 :]
    elif cls == "truncate":
        store[k] = raw[: rng.randrange(len(raw))]
    elif cls == "type":
        store[k] = rng.choice([raw.decode("latin1"), 5, None, [1]])
    elif cls == "drop_hmac":
        del store[k + ":hmac"]
    elif cls == "drop_payload":
        del store[k]
    elif cls == "hmac_type":
        store[k + ":hmac"] = rng.choice([b"x", 5, None])
    elif cls == "hmac_flip":
        h = store[k + ":hmac"]
        store[k + ":hmac"] = ("0" if h[0] != "0" else "1") + h[1:]
    elif cls == "hmac_nonascii":
        h = store[k + ":hmac"]
        store[k + ":hmac"] = "\u00e9" + h[1:]  # still a str, but not ASCII
    elif cls == "swap_payload":
        others = [e for e in entries if e != k and snapshot[e] != raw]
        if not others:
            return False
        store[k] = snapshot[others[0]]
    elif cls == "swap_entry":
        # payload AND signature of another, authentic entry placed under this key
        others = [e for e in entries if e != k and snapshot[e] != raw]
        if not others:
            return False
        store[k] = snapshot[others[0]]
        store[k + ":hmac"] = snapshot[others[0] + ":hmac"]
    return True


class _SecretsShim:
    def __init__(self) -> None:
        self.n = 0

    def token_bytes(self, n: int) -> bytes:
        self.n += 1
        return bytes((mix("key", self.n, i) % 256) for i in range(n))


def _run_disk(doc: dict) -> dict:
    import hypergraph.cache as hc

    res = empty_result()
    g = doc["graph"]
    values = fill_values(doc["inputs"])
    cacheable = _cacheable(g)
    viol: list = []
    rts = []
    rng = random.Random(doc["fault_seed"])
    real = bool(doc.get("real"))
    disk = None if real else FakeDisk()
    shim = PickleShim(disk)
    tmp = tempfile.mkdtemp(prefix="hgsim_c09_", dir="/tmp")
    cdir = os.path.join(tmp, "cache")
    os.makedirs(cdir, exist_ok=True)
    kf = os.path.join(cdir, ".hypergraph_hmac_key")
    fired: dict[str, int] = {}
    hits = [0]
    old_secrets = hc.secrets
    hc.secrets = _SecretsShim()
    state = {"i": 0}

    def store() -> dict:
        return disk.dirs.setdefault(cdir, {})

    def epoch() -> bytes | None:
        try:
            with open(kf, "rb") as f:
                return f.read()
        except OSError:
            return None

    def run_once(tag: str, *, expect_exc: bool = False, keep: bool = False):
        """One 'process lifetime': new DiskCache on the directory, one run (``keep``: the long-lived instance is reused)."""
        state["i"] += 1
        # same (plain) functions on both runners, so that entries are shared across runners
        mode = "async_syncfn" if (state["i"] % 4 == 0) else "sync"
        shim.loads_seen.clear()
        shim.loads_keys.clear()
        try:
            if keep and doc.get("same_instance") and state.get("cache") is not None:
                cache = state["cache"]
            else:
                cache = hc.DiskCache(cdir)
                if keep and doc.get("same_instance"):
                    state["cache"] = cache
        except ProcessDeath:
            raise
        except BaseException as e:  # noqa: BLE001
            viol.append((f"{tag}:exception_escaped_from_disk_cache_open", {"error": f"{type(e).__name__}: {e}"[:200]}))
            return None
        if disk is not None:
            disk.epoch = epoch()
        cw = CacheWorld()
        backend = RecordingBackend(cache, cw)

        def prep(rt, graph, comp):
            cw.rt = rt

        try:
            w = run_world(g, values, mode=mode, cfg=doc["async_cfg"], cache=backend, prepare=prep)
        except ProcessDeath:
            if expect_exc:
                return "died"
            raise
        finally:
            if real and not (keep and doc.get("same_instance")):
                try:
                    cache._cache.close()
                except Exception:  # noqa: BLE001
                    pass
        rts.append(w["rt"])
        res["runs"] += 1
        out = w["out"]
        hits[0] += sum(1 for o in cw.ops if o["k"] == "cget" and o["hit"])
        if out["status"] == "raised" and isinstance(out.get("err_obj"), ProcessDeath):
            return "died"
        if out["status"] != ref["status"] or canon(out["values"]) != canon(ref["values"]):
            viol.append((f"{tag}:disk_cached_run_differs_from_uncached", {"cached": [out["status"], out["error"], out["values"]], "uncached": [ref["status"], ref["values"]]}))
        # authenticated-bytes monitor
        if disk is not None:
            for b, lk in zip(shim.loads_seen, shim.loads_keys):
                ok = any(b in s for (ep, _k), s in disk.authentic_epoch.items() if ep == disk.epoch)
                okk = b in disk.authentic.get(lk or "", set())
                if not ok or not okk:
                    viol.append((f"{tag}:unauthenticated_bytes_deserialised", {"len": len(b) if isinstance(b, (bytes, str)) else None, "was_written_under_current_key": ok, "was_written_for_this_cache_key": okk}))
                    break
            if disk.lib_unpickled:
                # the storage library unpickles a row stored in pickle mode inside Cache.get(), before DiskCache has seen - let alone
                # authenticated - anything: DiskCache writes only bytes and str, so such a row is never its own
                viol.append((f"{tag}:storage_library_deserialised_an_unauthenticated_row", {"rows": sorted(set(map(str, disk.lib_unpickled)))[:3]}))
                del disk.lib_unpickled[:]
        else:
            for b in shim.loads_seen:
                if b not in shim.dumped:
                    viol.append((f"{tag}:unauthenticated_bytes_deserialised", {"len": len(b) if isinstance(b, (bytes, str)) else None}))
                    break
            if getattr(shim, "lib_loads", None):
                viol.append((f"{tag}:storage_library_deserialised_an_unauthenticated_row", {"times": len(shim.lib_loads)}))
                del shim.lib_loads[:]
        return w

    def invoked_cacheable(w) -> list[str]:
        return sorted({h["n"] for h in w["rt"].history if h["k"] == "enter" and h["n"] in cacheable})

    try:
        with DiskSeams(disk, shim):
            wref = run_world(g, values, mode="sync")
            rts.append(wref["rt"])
            ref = wref["out"]
            if ref["status"] != "completed":
                res["discard"] = "reference_not_completed"
                return res
            only = doc.get("only")
            w = run_once("warm", keep=True)
            w = run_once("hit", keep=True)
            if w not in (None, "died") and invoked_cacheable(w):
                viol.append(("hit:function_invoked_again_on_clean_disk_hit", {"nodes": invoked_cacheable(w)}))
            if disk is not None:
                snapshot = dict(store())
            else:
                import diskcache

                c0 = diskcache.Cache(cdir)
                snapshot = {k: c0.get(k) for k in list(c0.iterkeys())}
                c0.close()
            entries = sorted(k for k in snapshot if not k.endswith(":hmac"))
            res["stats"]["disk_entries_stored"] = len(entries)
            # every stored entry x every corruption class
            plan = [(k, cls) for k in entries for cls in CORRUPTIONS]
            if only is not None:
                plan = [(entries[o[1]], o[2]) for o in only if o[0] == "corrupt" and o[1] < len(entries)]
            for k, cls in plan:
                crng = random.Random(mix(doc["fault_seed"], k, cls))
                if cls == "unloadable":
                    raw0 = snapshot[k]
                    if not (isinstance(raw0, (bytes, bytearray)) and b"_load_versioned" in raw0):
                        continue
                    from hgsim import util as _u

                    gen0 = _u.GENERATION[0]
                if disk is not None:
                    st = store()
                    st.clear()
                    st.update(snapshot)
                    if not _corrupt(st, snapshot, k, cls, crng, entries):
                        continue
                else:
                    import diskcache

                    c0 = diskcache.Cache(cdir)
                    c0.clear()
                    for kk, vv in snapshot.items():
                        c0.set(kk, vv)
                    st = dict(snapshot)
                    if not _corrupt(st, snapshot, k, cls, crng, entries):
                        c0.close()
                        continue
                    for kk in (k, k + ":hmac"):
                        if kk in st:
                            c0.set(kk, st[kk])
                        else:
                            c0.delete(kk)
                    c0.close()
                fired["disk_" + cls] = fired.get("disk_" + cls, 0) + 1
                point = ["corrupt", entries.index(k), cls]
                n0 = len(viol)
                if cls == "unloadable":
                    _u.GENERATION[0] = gen0 + 1 + entries.index(k)  # the program was upgraded: stored objects of the old generation no longer load
                run_once(f"corrupt[{cls}]", keep=True)
                w2 = run_once(f"corrupt[{cls}]:after", keep=True)
                if cls == "unloadable":
                    _u.GENERATION[0] = gen0
                if w2 not in (None, "died") and invoked_cacheable(w2):
                    viol.append((f"corrupt[{cls}]:after:damaged_entry_not_repaired", {"nodes": invoked_cacheable(w2)}))
                for i in range(n0, len(viol)):
                    viol[i] = (viol[i][0], dict(viol[i][1], point=point))
            if disk is not None:
                # every write index of a cold run x {lost, crash before, crash after}, then restarts
                store().clear()
                disk.n_write = 0
                disk.write_plan = {}
                run_once("cold")
                nw = disk.n_write
                wplan = [(wi, act) for wi in range(nw) for act in ("lose", "crash_after", "crash_before")]
                if only is not None:
                    wplan = [(o[1], o[2]) for o in only if o[0] == "write"]
                for wi, act in wplan:
                    store().clear()
                    disk.n_write = 0
                    disk.write_plan = {wi: act}
                    point = ["write", wi, act]
                    n0 = len(viol)
                    r = run_once(f"write[{act}]", expect_exc=True)
                    if r == "died":
                        fired["disk_crash_between_writes"] = fired.get("disk_crash_between_writes", 0) + 1
                    else:
                        fired["disk_lost_write"] = fired.get("disk_lost_write", 0) + 1
                    disk.write_plan = {}
                    half = any((kk + ":hmac") not in store() for kk in store() if not kk.endswith(":hmac")) or any(kk[:-5] not in store() for kk in store() if kk.endswith(":hmac"))
                    if half:
                        res["stats"]["probe_restart_with_half_entry"] = res["stats"].get("probe_restart_with_half_entry", 0) + 1
                    run_once(f"write[{act}]:restart")
                    w3 = run_once(f"write[{act}]:restart2")
                    if w3 not in (None, "died") and invoked_cacheable(w3):
                        viol.append((f"write[{act}]:restart2:entry_not_repaired_after_torn_write", {"nodes": invoked_cacheable(w3)}))
                    for i in range(n0, len(viol)):
                        viol[i] = (viol[i][0], dict(viol[i][1], point=point))
                # key file damaged across a restart
                kplan = ["truncate", "delete", "garbage32"]
                if only is not None:
                    kplan = [o[1] for o in only if o[0] == "key"]
                if kplan:
                    store().clear()
                    disk.write_plan = {}
                    run_once("rewarm")
                for kmode in kplan:
                    if kmode == "truncate":
                        with open(kf, "rb") as f:
                            cur = f.read()
                        with open(kf, "wb") as f:
                            f.write(cur[:7])
                    elif kmode == "delete":
                        os.remove(kf)
                    else:
                        with open(kf, "wb") as f:
                            f.write(bytes(range(32)))
                    fired["keyfile_" + kmode] = fired.get("keyfile_" + kmode, 0) + 1
                    point = ["key", kmode]
                    n0 = len(viol)
                    run_once(f"key[{kmode}]")
                    w4 = run_once(f"key[{kmode}]:after")
                    if w4 not in (None, "died") and invoked_cacheable(w4):
                        viol.append((f"key[{kmode}]:after:entries_not_repaired_after_key_change", {"nodes": invoked_cacheable(w4)}))
                    for i in range(n0, len(viol)):
                        viol[i] = (viol[i][0], dict(viol[i][1], point=point))
    except BuildError:
        res["discard"] = "build_error"
        return res
    finally:
        hc.secrets = old_secrets
        shutil.rmtree(tmp, ignore_errors=True)
    for k_, v_ in fired.items():
        res["stats"]["fault_" + k_] = v_
    res["stats"]["cache_hits_served"] = hits[0]
    res["stats"]["disk_real_library_cases" if real else "disk_fake_store_cases"] = 1
    res["violations"] = viol
    res["nontrivial"] = hits[0] > 0 or bool(fired)
    res["shape"] = digest([gen.shape_of(g), sorted(cacheable), "disk", real], 8)
    res["sched"] = digest(sorted(fired.items()), 6)
    res["sig"] = digest([res["shape"], canon(doc["inputs"]), res["sched"]], 8)
    res["hdigest"] = hist_digest(rts)
    return res


def run_case(doc: dict) -> dict:
    if doc.get("kind") == "hash_probe":
        return run_hash_probe(doc)
    if doc["kind"] == "mem":
        return _run_mem(doc)
    res = _run_disk(doc)
    if doc.get("tier") == "thorough" and not res["violations"] and not res["discard"] and doc.get("only") is None and doc.get("_seed", 0) % 5 == 0:
        # thorough tier: the same corruption enumeration against the real diskcache library
        r2 = _run_disk(dict(doc, real=True))
        res["violations"] += [("real:" + c, d) for c, d in r2["violations"]]
        res["runs"] += r2["runs"]
        for k, v in r2["stats"].items():
            res["stats"][k] = res["stats"].get(k, 0) + v
    return res


def narrow(doc: dict, cls: str, detail) -> dict | None:
    if doc["kind"] != "disk" or cls.startswith("real:"):
        return None
    pt = (detail or {}).get("point") if isinstance(detail, dict) else None
    if pt:
        c = copy.deepcopy(doc)
        c["only"] = [list(pt)]
        return c
    return None


def shrink_candidates(doc: dict):
    from checks.c02 import shrink_program

    if doc.get("kind") == "hash_probe":
        return

    yield from shrink_program(doc)
    for nd_path in _cache_paths(doc["graph"]):
        c = copy.deepcopy(doc)
        gr = c["graph"]
        for i in nd_path[:-1]:
            gr = gr["nodes"][i]["graph"]
        gr["nodes"][nd_path[-1]]["cache"] = False
        yield c
    if doc["kind"] == "mem":
        if len(doc["runs"]) > 1:
            for i in range(len(doc["runs"])):
                c = copy.deepcopy(doc)
                del c["runs"][i]
                yield c
        for i, r in enumerate(doc["runs"]):
            simple = dict(r, runner="sync" if r["runner"] != "async" else "async", variant=0, evict=False, spurious=[], gv=0)
            if r != simple:
                c = copy.deepcopy(doc)
                c["runs"][i] = simple
                yield c
        if doc["backend"] != {"kind": "mem", "max_size": None}:
            c = copy.deepcopy(doc)
            c["backend"] = {"kind": "mem", "max_size": None}
            yield c


def _cache_paths(g: dict, path: tuple = ()):
    for i, nd in enumerate(g["nodes"]):
        if nd.get("cache"):
            yield path + (i,)
        if nd["kind"] == "graph":
            yield from _cache_paths(nd["graph"], path + (i,))


def signature(doc: dict, cls: str, detail) -> str:
    base = cls.split(":")[-1]
    return base


def sample_repr(doc: dict, res: dict):
    from checks.c02 import sample_repr as sr

    if doc.get("kind") == "hash_probe":
        return {"probe": "definition hashes of a battery of callables in two fresh interpreter processes", "hashseeds": doc["hashseeds"]}

    d = {"graph": doc["graph"], "faults": [], "max_iterations": doc.get("max_iterations"), "error_handling": "continue", "async": [], "sweep": False}
    out = sr(d, res)
    out["cacheable"] = sorted(_cacheable(doc["graph"]))
    if doc["kind"] == "mem":
        out["backend"] = doc["backend"]
        out["history"] = [[r["runner"], "inputs+%d" % r["variant"], "evict" if r["evict"] else "", "spurious_miss" if r["spurious"] else ""] for r in doc["runs"]]
        out["shared_functions"] = doc.get("shared")
    else:
        out["backend"] = "DiskCache on fake store: every entry x %d corruption classes, every write index x {lose, crash_before, crash_after}, key file {truncate, delete, replace}" % len(CORRUPTIONS)
    for k in ("schedules", "sweep", "faults"):
        out.pop(k, None)
    return out


LEVEL_TEXT = (
    "Fault enumeration inside the simulator plus seeded histories. Memory backends: histories of sync/async runs on one shared cache are compared "
    "run by run with the same run on a cache-less runner (status, values, started nodes), the recorded get/set sequence is replayed against an "
    "OrderedDict LRU model, and a function entered while its own entry is retained (and not excused by an injected miss) is a violation. Disk: for "
    "each program every stored entry is damaged in each of 9 ways, every write of a cold run is lost or interrupted by a simulated process death "
    "followed by restarts on the surviving store, and the HMAC key file is truncated/deleted/replaced; each faulty run must equal the uncached run, "
    "raise nothing, deserialise only bytes that DiskCache.set wrote for that key under the current HMAC key, and the following run must be served "
    "clean hits again."
)
LEVEL_NOTE = "Enumeration is complete per program (entries x classes, write indices x actions); programs and histories are sampled. The quick tier runs DiskCache on an in-memory stand-in for the diskcache library; the thorough tier repeats the corruption enumeration on the real library for a fifth of the cases."
TECHNIQUE = "deterministic simulation with storage fault injection (corruption, lost/torn writes, crash+restart) and cached-vs-uncached differential + LRU reference model"
DESIGN_REF = "DESIGN.md §4 C09"
