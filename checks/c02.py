"""C02 — determinism across runner, schedule, concurrency limit and node order (differential)."""

from __future__ import annotations

import copy
import random

from hgsim import gen
from hgsim.case import BuildError, completion_sig, fault_counts, fill_values, hist_digest, invocations, run_world, sim_stats
from hgsim.driver import empty_result
from hgsim.monitors import check_step_isolation
from hgsim.sweep import sweep
from hgsim.util import canon, digest

ID = "C02"
LEVEL = "exploration"
BUDGET = {"quick": (8, 400, 90), "thorough": (16, 12000, 600)}
SWEEP_CAP = {"quick": 16, "thorough": 120}
RULE = (
    "seeded general programs (DAG + route/ifelse gates incl. multi-target/END/None + ring loops + nested graphs to depth 2 + mapped "
    "graph nodes + emit/wait_for + upstream-fed defaults), optionally one or two injected node failures and a small max_iterations; "
    "one SyncRunner run is the reference; AsyncRunner runs under SimLoop with sampled schedules (delays, ties, ready-shuffle, "
    "max_concurrency) and, for small programs, a systematic sweep of every hold-open completion order; plus a node-list permutation. "
    "Non-trivial = at least two different completion orders were actually executed for the program; distinct = digest of "
    "(program shape, inputs, fault plan, set of completion orders)."
    ' Also varied per case: generator nodes, API spelling (decorators, explicit edges= mirroring the inferred topology, plain functions returning coroutines), object reuse between derivations, keyword-argument inputs, and the kind of injected exception (with/without arguments, TypeError with a call-mismatch text, KeyError).'
)
ASSUMPTIONS = [
    "output names are unique in generated programs, so node-list order must not matter",
    "failing runs are compared with the node order fixed (the statement only fixes the error across runners and schedules)",
    "ready-queue shuffle explores orders real asyncio (FIFO) cannot produce; a difference seen only under shuffle is re-run FIFO and dropped if it disappears",
]


def gen_case(rng: random.Random, tier: str) -> dict:
    g = gen.gen_program(rng, feats={**gen.gen_feats(rng), "gens": rng.random() < 0.3}, max_nodes=9 if tier == "thorough" else 7, depth=3 if (tier == "thorough" and rng.random() < 0.3) else 2)
    if rng.random() < 0.12:
        g = gen.gen_sibling_wrappers(rng)  # one sub-graph template mounted several times side by side, outputs renamed per wrapper
    inp = gen.program_inputs(rng, g)
    if g.get("siblings_program"):
        inp["omit"] = []
    fns = gen.fn_nodes(g)
    faults = []
    if fns and rng.random() < 0.35:
        for fi in range(2 if rng.random() < 0.25 else 1):
            nd, _d = rng.choice(fns)
            faults.append({"kind": "raise", "node": nd["name"], "inv": rng.choice([0, 0, 0, 1, None]), "when": rng.choice(["before", "after"]), "fid": fi, "exc": rng.choice(gen.EXC_KINDS)})
    has_loop = bool(g["seeds"])
    doc = {
        "graph": g,
        "inputs": inp,
        "faults": faults,
        "error_handling": rng.choice(["raise", "continue"]),
        "max_iterations": rng.choice([None, None, 3, 5, 8, 12]) if has_loop else rng.choice([None, None, None, 2, 4]),
        "async": [gen.gen_async_cfg(rng, allow_hold=True) for _ in range(3)],
        "sweep": rng.random() < 0.5,
        "perm_seed": rng.randrange(1 << 30),
        "tier": tier,
        "touch": rng.random() < 0.25,
        "api": gen.gen_api(rng),
        "kw_split": rng.randrange(1 << 30) if rng.random() < 0.25 else None,
    }
    return doc


def _values(doc: dict):
    return fill_values(doc["inputs"], keep=doc["graph"].get("seeds", []))


def _permuted(g: dict, seed: int) -> dict:
    g2 = copy.deepcopy(g)
    rng = random.Random(seed)

    def walk(gr: dict) -> None:
        order = list(range(len(gr["nodes"])))
        rng.shuffle(order)
        gr["order"] = order
        for nd in gr["nodes"]:
            if nd["kind"] == "graph":
                walk(nd["graph"])

    walk(g2)
    return g2


def _with_touch(g: dict) -> dict:
    g2 = copy.deepcopy(g)

    def walk(gr: dict) -> None:
        gr["touch"] = True
        for nd in gr["nodes"]:
            if nd["kind"] == "graph":
                nd["touch"] = ["spec", "graph"]
                walk(nd["graph"])

    walk(g2)
    return g2


def _summary(w: dict) -> dict:
    out = w["out"]
    return {"status": out["status"], "values": out["values"], "error": out["error"], "inv": invocations(w["rt"]), "fired": len(w["rt"].fired)}


def _required_fill(doc: dict, values: dict, w: dict) -> None:
    pass


def _producers(g: dict) -> dict:
    out = {}
    for nd, _d in gen.fn_nodes(g):
        for o in nd.get("outs", []):
            out[o] = nd["name"]
    return out


def _compare(base: dict, other: dict, label: str, viol: list, *, same_order: bool, producers: dict | None = None) -> None:
    b, o = base, other
    if b["status"] == "completed":
        if o["status"] != "completed":
            viol.append((f"{label}:status_differs", {"sync": b["status"], "other": o["status"], "error": o["error"]}))
            return
        if canon(o["values"]) != canon(b["values"]):
            keys = sorted(set(b["values"]) | set(o["values"]))
            diff = {k: (b["values"].get(k), o["values"].get(k)) for k in keys if canon(b["values"].get(k)) != canon(o["values"].get(k))}
            viol.append((f"{label}:values_differ", {"diff(sync,other)": diff}))
        if o["inv"] != b["inv"] and not (b["fired"] or o["fired"]):
            # (when a tolerated failure fired inside a continue-mode map item the two runners legitimately
            #  differ in which siblings of the failing node ran, exactly as for failing top-level runs)
            sb, so = set(map(tuple, b["inv"])), set(map(tuple, o["inv"]))
            viol.append((f"{label}:invocations_differ", {"only_sync": sorted(sb - so)[:4], "only_other": sorted(so - sb)[:4], "n_sync": len(b["inv"]), "n_other": len(o["inv"])}))
        return
    if not same_order:
        return  # failing runs are compared with the node order fixed
    if o["status"] != b["status"]:
        viol.append((f"{label}:failing_status_differs", {"sync": [b["status"], b["error"]], "other": [o["status"], o["error"]]}))
        return
    if canon(o["error"]) != canon(b["error"]):
        viol.append((f"{label}:error_differs", {"sync": b["error"], "other": o["error"]}))
    if b["status"] == "failed":
        bv, ov = b["values"] or {}, o["values"] or {}
        missing = {k: v for k, v in bv.items() if k not in ov or canon(ov[k]) != canon(v)}
        if missing:
            cnt_b: dict = {}
            cnt_o: dict = {}
            for n, _a in b["inv"]:
                cnt_b[n] = cnt_b.get(n, 0) + 1
            for n, _a in o["inv"]:
                cnt_o[n] = cnt_o.get(n, 0) + 1
            prod = producers or {}
            stale = all(k in ov and prod.get(k) is not None and cnt_o.get(prod[k], 0) > cnt_b.get(prod[k], 0) for k in missing)
            cls = "sync_partial_value_superseded_by_sibling_in_failing_step" if stale else "sync_partial_value_not_returned_by_async"
            viol.append((f"{label}:{cls}", {"missing_or_different": missing, "async_has": {k: ov.get(k) for k in missing}}))


def run_case(doc: dict) -> dict:
    res = empty_result()
    g = doc["graph"]
    values = _values(doc)
    kw = {"error_handling": doc["error_handling"]}
    if doc.get("max_iterations"):
        kw["max_iterations"] = doc["max_iterations"]
    faults = doc.get("faults") or []
    viol: list = []
    rts = []
    tier = doc.get("tier", "quick")
    prods = _producers(g)

    def world(gspec, mode, cfg=None):
        if doc.get("touch"):
            gspec = _with_touch(gspec)
        gspec = gen.with_api(gspec, doc.get("api"))
        w = run_world(gspec, values, mode=mode, cfg=cfg, faults=copy.deepcopy(faults), run_kwargs=dict(kw), kw_split=doc.get("kw_split"))
        rts.append(w["rt"])
        res["runs"] += 1
        sim_stats(res, w["out"])
        fault_counts(w["rt"], res["stats"])
        for c, d in w["rt"].violations:
            viol.append((f"monitor:{c}", d))
        for c, d in check_step_isolation(w["rt"]):
            viol.append((f"{mode}:{c}", d))
        return w

    try:
        ws = world(g, "sync")
        base = _summary(ws)
        if base["status"] == "raised" and base["error"] and base["error"][0] in ("MissingInputError", "ValueError", "IncompatibleRunnerError"):
            res["discard"] = "rejected_by_validation"
            return res
        sigs = []
        shuffle_only = 0
        for i, cfg in enumerate(doc["async"]):
            wa = world(g, "async", cfg)
            v0 = len(viol)
            _compare(base, _summary(wa), f"async{i}", viol, same_order=True, producers=prods)
            if len(viol) > v0 and cfg.get("shuffle") is not None:
                # confirm under asyncio's own FIFO order; shuffle-only differences are dropped
                cfg2 = dict(cfg, shuffle=None)
                wf = world(g, "async", cfg2)
                v1: list = []
                _compare(base, _summary(wf), f"async{i}", v1, same_order=True, producers=prods)
                if not v1:
                    del viol[v0:]
                    shuffle_only += 1
            sigs.append(completion_sig(wa["rt"]))
            if wa["out"]["status"] in ("deadlock", "step_cap"):
                viol.append((f"async{i}:{wa['out']['status']}", {}))
        if shuffle_only:
            res["stats"]["shuffle_only_difference_dropped"] = shuffle_only
        if doc.get("sweep"):
            cap = SWEEP_CAP.get(tier, 16)

            def run_with(prefix):
                cfg = {"schedule": {"mode": "hold", "sweep": True, "decisions": list(prefix), "seed": 0}, "shuffle": None, "max_concurrency": doc["async"][0].get("max_concurrency")}
                wsw = world(g, "async", cfg)
                _compare(base, _summary(wsw), "sweep", viol, same_order=True, producers=prods)
                sigs.append(completion_sig(wsw["rt"]))
                return {"decision_log": wsw["rt"].decision_log}

            runs, exhaustive = sweep(run_with, cap)
            res["stats"]["sweep_programs"] = 1
            res["stats"]["sweep_schedules"] = len(runs)
            if exhaustive:
                res["stats"]["sweep_exhaustive_programs"] = 1
        # node-list permutation (sync and one async schedule)
        gp = _permuted(g, doc["perm_seed"])
        wps = world(gp, "sync")
        _compare(base, _summary(wps), "perm_sync", viol, same_order=False)
        wpa = world(gp, "async", doc["async"][0])
        _compare(base, _summary(wpa), "perm_async", viol, same_order=False)
        # the same program as plain (non-async) functions on the async runner
        wsf = world(g, "async_syncfn", doc["async"][-1])
        _compare(base, _summary(wsf), "async_syncfn", viol, same_order=True, producers=prods)
    except BuildError:
        res["discard"] = "build_error"
        return res
    res["violations"] = viol
    distinct_orders = len(set(sigs))
    res["nontrivial"] = distinct_orders >= 2
    res["shape"] = gen.shape_of(g)
    res["sched"] = digest(sorted(set(sigs)), 6)
    res["sig"] = digest([res["shape"], canon(doc["inputs"]), canon(faults), canon(kw), res["sched"]], 8)
    res["hdigest"] = hist_digest(rts)
    res["stats"]["outcome_" + base["status"]] = 1
    if base["error"]:
        res["stats"]["error_" + str(base["error"][0])] = 1
    res["stats"]["distinct_completion_orders"] = distinct_orders
    return res


def shrink_candidates(doc: dict):
    yield from shrink_program(doc)
    if doc.get("sweep"):
        c = copy.deepcopy(doc)
        c["sweep"] = False
        yield c
    if doc.get("max_iterations"):
        c = copy.deepcopy(doc)
        c["max_iterations"] = None
        yield c
    for i in range(len(doc["async"])):
        if len(doc["async"]) > 1:
            c = copy.deepcopy(doc)
            del c["async"][i]
            yield c
    for i, a in enumerate(doc["async"]):
        if a.get("max_concurrency") is not None:
            c = copy.deepcopy(doc)
            c["async"][i]["max_concurrency"] = None
            yield c
        if a.get("shuffle") is not None:
            c = copy.deepcopy(doc)
            c["async"][i]["shuffle"] = None
            yield c
        if a["schedule"].get("mode") == "hold" or a["schedule"].get("choices") != [0]:
            c = copy.deepcopy(doc)
            c["async"][i]["schedule"] = {"mode": "delay", "seed": 0, "choices": [0], "delays": {}}
            yield c


def shrink_program(doc: dict):
    """Structural reductions of a general program (any nesting level)."""

    def paths(gr: dict, path: tuple):
        for i, nd in enumerate(gr["nodes"]):
            yield path + (i,)
            if nd["kind"] == "graph":
                yield from paths(nd["graph"], path + (i,))

    def locate(root: dict, path: tuple):
        gr = root
        for i in path[:-1]:
            gr = gr["nodes"][i]["graph"]
        return gr, path[-1]

    for path in sorted(paths(doc["graph"], ()), key=lambda p: (-len(p), tuple(-x for x in p))):
        c = copy.deepcopy(doc)
        gr, i = locate(c["graph"], path)
        removed = gr["nodes"].pop(i)
        gr["order"] = [j if j < i else j - 1 for j in gr.get("order", list(range(len(gr["nodes"]) + 1))) if j != i]
        outs = removed.get("outs", []) if removed["kind"] != "graph" else gen.program_outputs(removed["graph"])
        for o in outs:
            c["inputs"]["provide"].setdefault(o, 7)
        yield c
    # un-nest: replace a graph node by nothing but keep others is covered above; drop params
    for path in paths(doc["graph"], ()):
        gr, i = locate(doc["graph"], path)
        nd = gr["nodes"][i]
        for pi in range(len(nd.get("params", []))):
            if nd.get("blk"):
                continue
            c = copy.deepcopy(doc)
            g2, _ = locate(c["graph"], path)
            del g2["nodes"][i]["params"][pi]
            yield c
        for key in ("emit", "wait_for"):
            if nd.get(key):
                c = copy.deepcopy(doc)
                g2, _ = locate(c["graph"], path)
                del g2["nodes"][i][key]
                yield c
    for k in list(doc["inputs"]["omit"]):
        c = copy.deepcopy(doc)
        c["inputs"]["omit"].remove(k)
        yield c
    for k, v in doc["inputs"]["provide"].items():
        if isinstance(v, list) and len(v) > 1:
            c = copy.deepcopy(doc)
            c["inputs"]["provide"][k] = v[:-1]
            yield c


def signature(doc: dict, cls: str, detail) -> str:
    return cls.split(":", 1)[-1]


def sample_repr(doc: dict, res: dict):
    def brief(gr):
        out = []
        for nd in gr["nodes"]:
            if nd["kind"] == "graph":
                out.append({nd["name"]: brief(nd["graph"]), "map_over": nd.get("map_over")})
            else:
                out.append([nd["kind"], nd["name"], [p["name"] for p in nd.get("params", [])], nd.get("outs") or nd.get("targets") or [nd.get("when_true"), nd.get("when_false")]])
        return out

    return {"program": brief(doc["graph"]), "faults": doc["faults"], "max_iterations": doc["max_iterations"], "error_handling": doc["error_handling"],
            "schedules": [{"mode": a["schedule"]["mode"], "k": a["max_concurrency"], "shuffle": a["shuffle"] is not None} for a in doc["async"]], "sweep": doc["sweep"]}


LEVEL_TEXT = (
    "Seeded exploration of (program, schedule, fault) triples: every generated program is executed by the real SyncRunner once and by "
    "the real AsyncRunner under many simulated completion orders (sampled; exhaustively enumerated by a stateless DFS over hold-open "
    "release decisions when the decision tree is small), under different concurrency limits and a permuted node list; all outcomes must "
    "agree as the statement prescribes, and a step-tap checks that no node observed a sibling's same-step output."
)
LEVEL_NOTE = "Differential oracle (no model): trusts only the simulator, the spec compiler and the comparison code. Sampling, not proof."
TECHNIQUE = "deterministic simulation: seeded + systematic completion-order search on a virtual-time asyncio loop, sync-vs-async and schedule-vs-schedule differential"
DESIGN_REF = "DESIGN.md §4 C02"
