"""C16 — scoping: entry points limit what runs; results hold only requested outputs."""

from __future__ import annotations

import copy
import random

from hypergraph import InMemoryCache

from hgsim import gen
from hgsim.case import BuildError, completion_sig, fault_counts, fill_values, hist_digest, run_world, sim_stats
from hgsim.driver import empty_result
from hgsim.procs import SyncProc
from hgsim.spec import iter_nodes
from hgsim.util import canon, digest

ID = "C16"
LEVEL = "exploration"
BUDGET = {"quick": (8, 500, 90), "thorough": (16, 12000, 600)}
RULE = (
    "seeded general programs (gates incl. cached ones with a warm cache, nested graphs with their own select, mapped nodes, emit/wait_for signals, "
    "optionally one pausing interrupt) x random entry-point sets (non-gate nodes) x graph-level select x run-time select ('**', one name, list) x "
    "on_missing (ignore/warn/error); inputs for scoped runs are taken from the unscoped run's values; both runners (async under SimLoop delays); an "
    "injected node failure gives FAILED partial results and a pausing interrupt gives PAUSED ones. Non-trivial = entry points excluded >=1 node, or a "
    "selection removed >=1 produced output, or a failing/paused result was filtered; distinct = digest of (program shape, scope, selections, outcome kind)."
    ' Also: the unconfigured graph object is run once and the scoped graph is derived from that same instance (object reuse); the same configured graph through runner.map over one item must give the run result (both runners).'
)
ASSUMPTIONS = [
    "value equality with the unscoped run is asserted only for gate-free scopes (an excluded gate legitimately changes which branches can run)",
    "a selected ordering-signal name yields no value and no 'missing' report",
]


def gen_ordered_chain(rng: random.Random) -> dict:
    return {"kind": "ordered_chain", "entry": rng.choice([None, "oc_clean", "oc_clean", "oc_rep"]), "stages": 1, "order_seed": rng.randrange(1 << 30), "cfg": gen.gen_async_cfg(rng, allow_hold=False)}


def run_ordered_chain(doc: dict) -> dict:
    """An ORDERED pipeline whose stages re-produce the name they read: load(p) -> (df, meta); clean_k(df, meta) -> df; rep(df) -> out.
    (The duplicate output is legal because the producers are ordered, not exclusive.) Entered at a stage, the caller supplies df and
    meta: the stage and everything behind it run, nothing before it does, df stays an input of the scoped graph."""
    from hgsim.case import enters

    res = empty_result()
    k = doc["stages"]
    nodes = [{"kind": "fn", "name": "oc_load", "params": [{"name": "ocp"}], "outs": ["ocdf", "ocmeta"]}]
    for i in range(k):
        nodes.append({"kind": "fn", "name": "oc_clean" if i == 0 else f"oc_clean{i}", "params": [{"name": "ocdf"}, {"name": "ocmeta" if i == 0 else f"ocm{i}"}], "outs": ["ocdf"] + ([f"ocm{i + 1}"] if i + 1 < k else [])})
    nodes.append({"kind": "fn", "name": "oc_rep", "params": [{"name": "ocdf"}, {"name": "ocmeta" if k == 1 else f"ocm{k - 1}"}], "outs": ["ocrep"]})
    order = list(range(len(nodes)))
    random.Random(doc["order_seed"]).shuffle(order)
    spec = {"name": "top", "nodes": nodes, "order": order}
    entry = doc["entry"]
    if entry:
        spec["entrypoints"] = [entry]
    names = [nd["name"] for nd in nodes]
    upstream = set(names[: names.index(entry)]) if entry else set()
    viol: list = []
    rts = []
    try:
        for mode in ("sync", "async"):
            def values(graph):
                v = {n_: 5 for n_ in graph.inputs.required}
                for ps in graph.inputs.entrypoints.values():  # (listed before its predecessor, a re-producing stage counts as a cycle entry)
                    v.update({q: 5 for q in ps})
                return v

            w = run_world(copy.deepcopy(spec), values, mode=mode, cfg=doc["cfg"] if mode == "async" else None, run_kwargs={"error_handling": "continue"})
            rts.append(w["rt"])
            res["runs"] += 1
            out = w["out"]
            tag = f"{mode}[ordered_chain]"
            req = set(w["graph"].inputs.required) | {q for ps in w["graph"].inputs.entrypoints.values() for q in ps}
            if entry and "ocdf" not in req and entry != "oc_load":
                viol.append((f"{tag}:upstream_value_not_taken_from_the_caller", {"entry": entry, "required": sorted(req)}))
                continue
            if out["status"] != "completed":
                viol.append((f"{tag}:scoped_run_not_completed", {"status": out["status"], "error": out["error"], "entry": entry, "required": sorted(req)}))
                continue
            ran = {h["n"] for h in enters(w["rt"])}
            if ran & upstream:
                viol.append((f"{tag}:node_outside_entry_point_scope_executed", {"entry": entry, "ran": sorted(ran & upstream)}))
            # (whether a reader of the re-produced name that sits behind the entry stage is in the scope depends on the order of the
            #  node list, on the pinned tree already - the edge of the name is held by the producer listed first. The statement does
            #  not demand it, and output names are not unique here; demanded is only that the entry node itself runs.)
            if entry and entry not in ran:
                viol.append((f"{tag}:entry_node_never_ran", {"entry": entry, "ran": sorted(ran), "order": order}))
            if not entry and set(names) - ran:
                viol.append((f"{tag}:node_never_ran_in_unscoped_run", {"never_ran": sorted(set(names) - ran), "order": order}))
    except BuildError as e:
        res["discard"] = "build_error"
        res["detail"] = str(e)[:200]
        return res
    res["violations"] = viol
    res["nontrivial"] = True
    res["stats"]["ordered_chain_cases"] = 1
    if entry:
        res["stats"]["probe_entrypoints_excluded_nodes"] = 1
    res["shape"] = digest(["ordered_chain", entry, k, order], 8)
    res["sched"] = "-"
    res["sig"] = res["shape"]
    res["hdigest"] = hist_digest(rts)
    return res


def gen_private_branches(rng: random.Random) -> dict:
    return {"kind": "private_branches", "entry": rng.choice(["pbA", "pbB"]), "variant": rng.choice(["both", "first_only"]), "order_seed": rng.randrange(1 << 30), "cfg": gen.gen_async_cfg(rng, allow_hold=False)}


def run_private_branches(doc: dict) -> dict:
    """Explicit edges=: two exclusive branches produce one name, and each feeds it to a consumer OF ITS OWN (A -> RA, B -> RB).
    Entered at one branch, the other branch's consumer is outside the scope: it never runs and its inputs are not asked for."""
    from hgsim.case import enters

    res = empty_result()
    nodes = [
        {"kind": "ifelse", "name": "pbg", "params": [{"name": "pbf"}], "when_true": "pbA", "when_false": "pbB", "decide": {"op": "const", "value": True}},
        {"kind": "fn", "name": "pbA", "params": [{"name": "pbv"}], "outs": ["pbx"]},
        {"kind": "fn", "name": "pbB", "params": [{"name": "pbv"}], "outs": ["pbx"]},
        {"kind": "fn", "name": "pbRA", "params": [{"name": "pbx"}, {"name": "pbka"}], "outs": ["pbra"]},
        {"kind": "fn", "name": "pbRB", "params": [{"name": "pbx"}, {"name": "pbkb"}], "outs": ["pbrb"]},
    ]
    edges = [["pbg", "pbA"], ["pbg", "pbB"], ["pbA", "pbRA", ["pbx"]], ["pbB", "pbRB", ["pbx"]]]
    if doc.get("variant") == "first_only":
        # only the first branch has a declared reader at all; the entry is always the other branch
        nodes = nodes[:4]
        edges = edges[:3]
        doc = dict(doc, entry="pbB")
    order = list(range(len(nodes)))
    random.Random(doc["order_seed"]).shuffle(order)
    spec = {"name": "top", "nodes": nodes, "order": order, "entrypoints": [doc["entry"]], "explicit_edges": edges}
    mine, other = ("pbRA", "pbRB") if doc["entry"] == "pbA" else ("pbRB", "pbRA")
    if doc.get("variant") == "first_only":
        mine = doc["entry"]
    other_key = "pbkb" if doc["entry"] == "pbA" else "pbka"
    viol: list = []
    rts = []
    try:
        for mode in ("sync", "async"):
            w = run_world(copy.deepcopy(spec), lambda graph: {n_: 5 for n_ in graph.inputs.required}, mode=mode, cfg=doc["cfg"] if mode == "async" else None, run_kwargs={"error_handling": "continue"})
            rts.append(w["rt"])
            res["runs"] += 1
            out = w["out"]
            tag = f"{mode}[private_branches]"
            req = set(w["graph"].inputs.required)
            if other_key in req:
                viol.append((f"{tag}:input_of_a_node_outside_the_scope_is_required", {"entry": doc["entry"], "required": sorted(req), "order": order}))
                continue
            if out["status"] != "completed":
                viol.append((f"{tag}:scoped_run_not_completed", {"status": out["status"], "error": out["error"], "entry": doc["entry"]}))
                continue
            ran = {h["n"] for h in enters(w["rt"])}
            if other in ran or ran & {"pbg", "pbA" if doc["entry"] == "pbB" else "pbB"}:
                viol.append((f"{tag}:node_outside_entry_point_scope_executed", {"entry": doc["entry"], "ran": sorted(ran), "order": order}))
            if not {doc["entry"], mine} <= ran:
                viol.append((f"{tag}:node_inside_entry_point_scope_never_ran", {"entry": doc["entry"], "ran": sorted(ran), "order": order}))
    except BuildError as e:
        res["discard"] = "build_error"
        res["detail"] = str(e)[:200]
        return res
    res["violations"] = viol
    res["nontrivial"] = True
    res["stats"]["private_branches_cases"] = 1
    res["stats"]["probe_entrypoints_excluded_nodes"] = 1
    res["shape"] = digest(["private_branches", doc["entry"], doc.get("variant"), order], 8)
    res["sched"] = "-"
    res["sig"] = res["shape"]
    res["hdigest"] = hist_digest(rts)
    return res


def gen_case(rng: random.Random, tier: str) -> dict:
    r0 = rng.random()
    if r0 < 0.025:
        return gen_ordered_chain(rng)
    if r0 < 0.04:
        return gen_private_branches(rng)
    feats = {**gen.gen_feats(rng), "loops": False}
    g = gen.gen_program(rng, feats=feats, max_nodes=9 if tier == "thorough" else 7)
    if rng.random() < 0.06:
        # one NAME that is the ordering signal of a node in one branch of a gate and the data output of a node in the other branch
        # (legal: the producers are mutually exclusive); whether the name is returned depends on what was produced, not on the name
        dec = rng.random() < 0.5
        g = {"name": "top", "ext": ["x"], "lists": [], "seeds": [], "own_ext": ["x"], "picked": [], "order": [0, 1, 2, 3], "nodes": [
            {"kind": "ifelse", "name": "xg", "params": [{"name": "x"}], "when_true": "xe", "when_false": "xd", "default_open": False, "decide": {"op": "const", "value": dec}},
            {"kind": "fn", "name": "xe", "params": [{"name": "x"}], "outs": ["xe_o"], "emit": ["tok"]},
            {"kind": "fn", "name": "xd", "params": [{"name": "x"}], "outs": ["tok"]},
            {"kind": "fn", "name": "xf", "params": [{"name": "x"}], "outs": ["xf_o"], "wait_for": ["tok"]}]}
        rng.shuffle(g["order"])
    for nd, _d, _p in iter_nodes(g):
        if nd["kind"] in ("route", "ifelse") and rng.random() < 0.5:
            nd["cache"] = True
    # nested graphs with their own select
    for nd in g["nodes"]:
        if nd["kind"] == "graph" and not nd.get("map_over") and rng.random() < 0.4:
            outs = gen.program_outputs(nd["graph"])
            if outs:
                nd["graph"]["select"] = rng.sample(outs, rng.randint(1, len(outs)))
    if rng.random() < 0.4:
        # outputs that are legal but falsy - in particular None: a selected output whose VALUE is None was produced, it is not missing
        lists = set(g.get("lists", []))
        for nd, _d, _p in iter_nodes(g):
            if nd["kind"] == "fn" and nd.get("outs") and not nd.get("beh") and not nd.get("gen") and not (set(nd["outs"]) & lists) and rng.random() < 0.25:
                nd["beh"] = "const"
                nd["beh_value"] = rng.choice([None, None, 0, False, "", []])
    interrupt = None
    fn_top = [nd for nd in g["nodes"] if nd["kind"] == "fn" and nd["params"] and nd["outs"] and not nd.get("emit") and not nd.get("wait_for")]
    if fn_top and rng.random() < 0.2:
        nd = rng.choice(fn_top)
        nd["kind"] = "interrupt"
        nd["script"] = ["pause"]
        for p in nd["params"]:
            pass
        interrupt = nd["name"]
    inp = gen.program_inputs(rng, g, list_len=(1, 3))
    top_nonfn = [nd["name"] for nd in g["nodes"] if nd["kind"] in ("fn", "graph", "interrupt")]
    entry = rng.sample(top_nonfn, min(len(top_nonfn), rng.randint(1, 2))) if (top_nonfn and rng.random() < 0.6) else None
    outs = _declared_outputs(g)
    gsel = rng.sample(outs, rng.randint(1, min(3, len(outs)))) if (outs and rng.random() < 0.35) else None
    if outs and rng.random() < 0.04:
        gsel = []  # Graph.select() without names: an empty default selection (nothing is exposed, nothing needs to run)
    r = rng.random()
    if not outs or r < 0.35:
        rsel = None
    elif r < 0.5:
        rsel = "**"
    elif r < 0.7:
        rsel = rng.choice(outs)
    else:
        rsel = rng.sample(outs, rng.randint(1, min(3, len(outs))))
    if isinstance(rsel, list) and rng.random() < 0.2 and g["ext"]:
        rsel = rsel + [rng.choice(g["ext"])]  # a plain INPUT name in the selection: rejected, or at least never returned
    rsel_has_input = isinstance(rsel, list) and any(n_ in g["ext"] for n_ in rsel)
    rsel_tuple = rng.choice([True, "set", "frozenset", "generator", "generator"]) if (isinstance(rsel, list) and rng.random() < 0.4) else False  # the selection is given as a tuple / set / frozenset instead of a list
    fns = gen.fn_nodes(g)
    fault = None
    if fns and rng.random() < 0.3:
        nd, _d = rng.choice(fns)
        fault = {"kind": "raise", "node": nd["name"], "inv": 0, "fid": 0, "when": "before"}
    return {"graph": g, "inputs": inp, "entry": entry, "gsel": gsel, "rsel": rsel, "on_missing": rng.choice(["ignore", "warn", "error"]), "fault": fault, "interrupt": interrupt, "rsel_tuple": rsel_tuple, "cfg": gen.gen_async_cfg(rng, allow_hold=False), "error_handling": "continue", "reuse": rng.random() < 0.35, "budget_probe": rng.random() < 0.3}


def _declared_outputs(g: dict) -> list[str]:
    """All output names of the top graph (data outputs incl. what nested graphs expose, plus emit names)."""
    outs: list[str] = []
    for nd in g["nodes"]:
        if nd["kind"] == "graph":
            outs += gen.program_outputs(nd["graph"])
            outs += _emits_exposed(nd["graph"])
        else:
            outs += nd.get("outs", [])
        outs += nd.get("emit", [])
    return list(dict.fromkeys(outs))


def _emits_exposed(g: dict) -> list[str]:
    if g.get("select"):
        return []
    out = []
    for nd in g["nodes"]:
        out += nd.get("emit", [])
        if nd["kind"] == "graph":
            out += _emits_exposed(nd["graph"])
    return out


def _all_emits(g: dict) -> set[str]:
    return {e for nd, _d, _p in iter_nodes(g) for e in nd.get("emit", [])}


def _node_io(nd: dict) -> tuple[set[str], set[str]]:
    """(consumed names, produced names incl. signals) of a top-level node."""
    if nd["kind"] == "graph":
        prod: set[str] = set()
        cons: set[str] = set()
        for inner, _d, _p in iter_nodes(nd["graph"]):
            if inner["kind"] != "graph":
                prod |= set(inner.get("outs", [])) | set(inner.get("emit", []))
                cons |= {inner.get("rename_inputs", {}).get(p["name"], p["name"]) for p in inner.get("params", [])} | set(inner.get("wait_for", []))
        exposed = set(gen.program_outputs(nd["graph"])) | set(_emits_exposed(nd["graph"]))  # an inner select narrows what the node produces
        return cons - prod, exposed
    cons = {nd.get("rename_inputs", {}).get(p["name"], p["name"]) for p in nd.get("params", [])} | set(nd.get("wait_for", []))
    return cons, set(nd.get("outs", [])) | set(nd.get("emit", []))


def active_set(g: dict, entry: list[str] | None) -> set[str] | None:
    if not entry:
        return None
    io = {nd["name"]: _node_io(nd) for nd in g["nodes"]}
    succ: dict[str, set[str]] = {n: set() for n in io}
    for a, (_ca, pa) in io.items():
        for b, (cb, _pb) in io.items():
            if a != b and pa & cb:
                succ[a].add(b)
    for nd in g["nodes"]:
        if nd["kind"] in ("route", "ifelse"):
            succ[nd["name"]] |= {t for t in gen.gate_targets(nd) if t != "@END"}
    act = set(entry)
    stack = list(entry)
    while stack:
        x = stack.pop()
        for y in succ.get(x, ()):
            if y not in act:
                act.add(y)
                stack.append(y)
    return act


def _owner(g: dict) -> dict[str, str]:
    own = {}
    for nd in g["nodes"]:
        own[nd["name"]] = nd["name"]
        if nd["kind"] == "graph":
            for inner, _d, _p in iter_nodes(nd["graph"]):
                own[inner["name"]] = nd["name"]
                own[inner.get("fid", inner["name"])] = nd["name"]
    return own


def _has_sentinel(v, depth=0) -> bool:
    from hypergraph.nodes.base import _EMIT_SENTINEL

    if v is _EMIT_SENTINEL:
        return True
    if isinstance(v, (list, tuple)) and depth < 6:
        return any(_has_sentinel(x, depth + 1) for x in v)
    if isinstance(v, dict) and depth < 6:
        return any(_has_sentinel(x, depth + 1) for x in v.values())
    return False


def _effective(doc: dict, outs: list[str]) -> list[str] | None:
    rsel = doc.get("rsel")
    if rsel is None:
        return list(doc["gsel"]) if doc.get("gsel") is not None else None
    if rsel == "**":
        return None
    return [rsel] if isinstance(rsel, str) else list(rsel)


def run_case(doc: dict) -> dict:
    if doc.get("kind") == "ordered_chain":
        return run_ordered_chain(doc)
    if doc.get("kind") == "private_branches":
        return run_private_branches(doc)
    res = empty_result()
    g = doc["graph"]
    viol: list = []
    rts = []
    sigs = []
    outs = _declared_outputs(g)
    emits = _all_emits(g)
    base = fill_values(doc["inputs"])
    has_gates = any(nd["kind"] in ("route", "ifelse") for nd in g["nodes"])
    try:
        # reference: unscoped, unselected, fault-free, handlers auto-resolve
        gref = copy.deepcopy(g)
        for nd in gref["nodes"]:
            if nd["kind"] == "interrupt":
                nd["script"] = []
        mode0 = "async" if doc.get("interrupt") else "sync"
        wref = run_world(gref, base, mode=mode0, cfg=doc["cfg"], run_kwargs={"select": "**"})
        rts.append(wref["rt"])
        res["runs"] += 1
        ref = wref["out"]
        if ref["status"] != "completed":
            res["discard"] = "reference_not_completed"
            return res
        # configured graph
        gs = copy.deepcopy(g)
        derive = None
        if doc.get("reuse") and (doc.get("entry") or doc.get("gsel")):
            # the unconfigured graph object is run once, then the scoped graph is derived from that same instance
            def derive(graph, _d=doc):
                if _d.get("entry"):
                    graph = graph.with_entrypoint(*_d["entry"])
                if _d.get("gsel") is not None:
                    graph = graph.select(*_d["gsel"])
                return graph
        else:
            if doc.get("entry"):
                gs["entrypoints"] = list(doc["entry"])
            if doc.get("gsel") is not None:
                gs["select"] = list(doc["gsel"])
        act = active_set(g, doc.get("entry"))
        own = _owner(g)

        def values(graph):
            v = dict(wref["values"])
            # upstream values are taken from the caller: everything the configured graph lists as an input and
            # the unscoped run produced is supplied with the unscoped run's value
            if act is not None:
                made_inside = set()
                for nd in g["nodes"]:
                    if nd["name"] in act:
                        made_inside |= _node_io(nd)[1]
                for nd in g["nodes"]:
                    if nd["name"] in act:
                        for r in sorted(_node_io(nd)[0]):
                            if r not in v and r in ref["values"] and r not in made_inside:
                                v[r] = ref["values"][r]
            for r in graph.inputs.required:
                if r not in v:
                    v[r] = doc["inputs"]["provide"].get(r, 23)
            return v

        eff = _effective(doc, outs)
        kw = {"on_missing": doc["on_missing"], "error_handling": doc["error_handling"]}
        if doc.get("rsel") is not None:
            conv = {True: tuple, "set": set, "frozenset": frozenset}.get(doc.get("rsel_tuple"))
            kw["select"] = conv(doc["rsel"]) if (conv and isinstance(doc["rsel"], list)) else doc["rsel"]

        def kw_now(**extra):
            # (a one-shot iterator serves ONE call: every call of the history gets a fresh one)
            k2 = dict(kw, **extra)
            if doc.get("rsel_tuple") == "generator" and isinstance(doc.get("rsel"), list):
                k2["select"] = (n_ for n_ in doc["rsel"])
            return k2

        faults = [doc["fault"]] if doc.get("fault") else []
        modes = (["async"] if doc.get("interrupt") else ["sync", "async"])
        min_budget: dict[str, int] = {}
        for mode in modes:
            cache = InMemoryCache() if any(nd.get("cache") for nd, _d, _p in iter_nodes(g)) else None
            rounds = 2 if cache is not None else 1
            for rd in range(rounds):
                # same scope, everything selected, no policy: tells which names this scope produces
                try:
                    wall = run_world(gs, values, mode=mode, cfg=doc["cfg"], faults=copy.deepcopy(faults), run_kwargs={"select": "**", "error_handling": "continue"}, cache=cache, derive=derive, warm_values=wref["values"])
                    pbox: dict = {}
                    w = run_world(gs, values, mode=mode, cfg=doc["cfg"], faults=copy.deepcopy(faults), run_kwargs=kw_now(), cache=cache, processors_factory=lambda rt, b=pbox: b.setdefault("p", [SyncProc(rt, "rec")]), derive=derive, warm_values=wref["values"])
                except BuildError:
                    res["discard"] = "configured_graph_rejected"
                    return res
                rts += [wall["rt"], w["rt"]]
                res["runs"] += 2
                sim_stats(res, w["out"])
                fault_counts(w["rt"], res["stats"])
                out, oall = w["out"], wall["out"]
                tag = f"{mode}{rd}"
                sigs.append(completion_sig(w["rt"]))
                if oall["status"] == "raised" and oall["error"] and oall["error"][0] in ("MissingInputError", "ValueError", "GraphConfigError"):
                    res["discard"] = "scoped_call_rejected_by_validation"
                    return res
                if out["status"] == "raised" and out["error"] and out["error"][0] == "GraphConfigError" and "Invalid select" in str(out["error"][1]):
                    res["discard"] = "selection_rejected_by_validation"  # e.g. a plain input name in the selection (list spelling)
                    return res
                # ---- scope monitor
                if act is not None:
                    hist = w["rt"].history
                    mk = [i for i, h in enumerate(hist) if h["k"] == "derive_marker"]
                    for h in (hist[mk[-1]:] if mk else hist):
                        if h["k"] == "enter":
                            o = own.get(h["n"], h["n"])
                            if o not in act:
                                viol.append((f"{tag}:node_outside_entry_point_scope_executed", {"node": h["n"], "owner": o, "entry": doc["entry"], "active": sorted(act)}))
                                break
                    excluded = [nd["name"] for nd in g["nodes"] if nd["name"] not in act]
                    if excluded:
                        res["stats"]["probe_entrypoints_excluded_nodes"] = res["stats"].get("probe_entrypoints_excluded_nodes", 0) + 1
                # ---- result model
                produced_all = oall["values"] or {}
                # a signal name counts as produced when its (top-level) producer completed in this run
                # (completion is read from NodeEnd events so that a cache hit counts as well)
                done = {e.node_name for e in pbox["p"][0].events if type(e).__name__ == "NodeEndEvent" and e.graph_name == g.get("name")}
                emitted = {e for nd in g["nodes"] if nd["kind"] != "graph" and nd["name"] in done for e in nd.get("emit", [])}
                missing = [k for k in (eff or []) if k not in produced_all and k not in emitted]
                expect_error = bool(missing) and doc["on_missing"] == "error" and oall["status"] == "completed"
                res["stats"]["outcome_" + out["status"]] = res["stats"].get("outcome_" + out["status"], 0) + 1
                if expect_error:
                    err = out["error"]
                    if not (out["status"] in ("failed", "raised") and err and err[0] == "ValueError"):
                        viol.append((f"{tag}:on_missing_error_did_not_raise_value_error", {"status": out["status"], "error": err, "missing": missing}))
                    res["stats"]["probe_on_missing_error"] = res["stats"].get("probe_on_missing_error", 0) + 1
                    # ---- on_missing="error" under runner.map: the item fails exactly as the run does
                    om_failed = out["status"] == "failed" and out["error"] and out["error"][0] == "ValueError" and "Requested outputs not found" in str(out["error"][1])
                    if om_failed and not faults and not doc.get("interrupt") and isinstance(w["values"], dict):
                        gi = w["graph"].inputs.all
                        names = [k for k in sorted(w["values"]) if k in gi and isinstance(w["values"][k], int) and not isinstance(w["values"][k], bool)]
                        if names:
                            mvals = dict(w["values"])
                            mvals[names[0]] = [mvals[names[0]]]
                            wm = run_world(gs, mvals, mode=mode, cfg=doc["cfg"], run_kwargs=kw_now(map_over=names[0]), op="map", cache=cache, derive=derive, warm_values=wref["values"])
                            rts.append(wm["rt"])
                            res["runs"] += 1
                            om = wm["out"]
                            res["stats"]["probe_on_missing_error_under_map"] = res["stats"].get("probe_on_missing_error_under_map", 0) + 1
                            item = om["items"][0] if (om["status"] == "list" and len(om["items"]) == 1) else None
                            if item is None or item["status"] != "failed" or not item["error"] or item["error"][0] != "ValueError":
                                viol.append((f"{tag}:on_missing_error_not_applied_to_map_item", {"run": [out["status"], out["error"]], "map": [om["status"], item and [item["status"], item["values"], item["error"]], om.get("error")]}))
                    continue
                if out["status"] not in ("completed", "failed", "paused"):
                    if out["status"] == "raised" and oall["status"] == "raised" and canon(out["error"]) == canon(oall["error"]):
                        continue
                    viol.append((f"{tag}:unexpected_outcome", {"status": out["status"], "error": out["error"], "all_selected_status": oall["status"]}))
                    continue
                if out["status"] != oall["status"]:
                    viol.append((f"{tag}:selection_changed_run_status", {"selected": [out["status"], out["error"]], "all": [oall["status"], oall["error"]]}))
                    continue
                vals = out["values"] or {}
                allowed = set(outs) if eff is None else set(eff) & set(outs)
                extra = sorted(k for k in vals if k not in allowed)
                if extra:
                    viol.append((f"{tag}:result_has_key_outside_selection_or_declared_outputs", {"keys": extra, "selection": eff, "status": out["status"]}))
                if "__routing_decision__" in vals or any(isinstance(v, dict) and "__routing_decision__" in v for v in vals.values()):
                    viol.append((f"{tag}:internal_routing_key_leaked", {"status": out["status"]}))
                leaked = sorted(k for k, v in vals.items() if _has_sentinel(v))
                if leaked:
                    viol.append((f"{tag}:ordering_sentinel_leaked", {"keys": leaked, "status": out["status"]}))
                inputs_only = sorted(k for k in vals if k not in outs)
                if inputs_only:
                    viol.append((f"{tag}:plain_input_returned_as_output", {"keys": inputs_only}))
                # values equal the all-selected run of the same scope
                for k, v in vals.items():
                    if k in produced_all and canon(produced_all[k]) != canon(v):
                        viol.append((f"{tag}:selected_value_differs_from_unselected_run", {"key": k, "selected": v, "all": produced_all[k]}))
                        break
                want = [k for k in (eff if eff is not None else outs) if k in produced_all and k not in emits]
                lost = [k for k in want if k not in vals]
                if lost and out["status"] == "completed":
                    viol.append((f"{tag}:selected_and_produced_output_missing", {"keys": lost}))
                # gate-free scope: values equal the unscoped run
                # (not when a waiter inside the scope awaits a signal whose producer is outside it: it can never run)
                ordering_cut = False
                if act is not None:
                    made = {}
                    for nd in g["nodes"]:
                        for o in _node_io(nd)[1]:
                            made[o] = nd["name"]
                    for nd in g["nodes"]:
                        if nd["name"] in act and any(made.get(wn) is not None and made[wn] not in act for wn in nd.get("wait_for", [])):
                            ordering_cut = True
                # (nor when a waiter has a defaulted parameter: in the unscoped run it may legitimately have run once on the
                #  default and never again - C17 - whereas the scoped run is handed the upstream value by the caller)
                #  The same holds when the default sits on a node UPSTREAM of the waiter (thorough seed 20261001: n3(o0_0, o2_0=default)
                #  runs early in the scoped run because the caller supplies o0_0 at once, the waiter n7(o3_0) consumes that early value
                #  when its signal arrives and - C17 - does not start again when o3_0 is refreshed).
                def _has_defaulted_ancestor(nd0: dict) -> bool:
                    by_out = {o: n_ for n_ in g["nodes"] for o in _node_io(n_)[1]}
                    seen, work = set(), [nd0]
                    while work:
                        n_ = work.pop()
                        if n_["name"] in seen:
                            continue
                        seen.add(n_["name"])
                        if any("default" in q for q in n_.get("params", [])):
                            return True
                        work += [by_out[q["name"]] for q in n_.get("params", []) if q["name"] in by_out]
                    return False

                sticky = any(nd.get("wait_for") and any("default" in q for q in nd.get("params", [])) for nd, _d, _p in iter_nodes(g)) or any(
                    nd.get("wait_for") and _has_defaulted_ancestor(nd) for nd in g["nodes"])
                inner_sel = any(nd["kind"] == "graph" and nd["graph"].get("select") for nd, _d, _p in iter_nodes(g))  # an inner select also narrows what a wrapper CONSUMES: the spec-level scope model over-approximates the scope then
                if not has_gates and out["status"] == "completed" and not faults and not ordering_cut and not sticky and not (inner_sel and act is not None):
                    diff = {k: (v, ref["values"][k]) for k, v in vals.items() if k in ref["values"] and canon(v) != canon(ref["values"][k])}
                    if diff:
                        viol.append((f"{tag}:scoped_value_differs_from_unscoped_run", {"diff(scoped,unscoped)": diff, "entry": doc.get("entry")}))
                    if act is not None and rd == 0 and cache is None and doc.get("rsel") is None and doc.get("gsel") is None and not inner_sel:
                        # liveness inside the scope: every top-level node of the scope that ran in the unscoped run runs in the scoped run
                        hist = w["rt"].history
                        mk = [i for i, h in enumerate(hist) if h["k"] == "derive_marker"]
                        ran_scoped = {own.get(h["n"], h["n"]) for h in (hist[mk[-1]:] if mk else hist) if h["k"] == "enter"}
                        ran_ref = {own.get(h["n"], h["n"]) for h in wref["rt"].history if h["k"] == "enter"}
                        lost = sorted((ran_ref & set(act)) - ran_scoped)
                        if lost:
                            viol.append((f"{tag}:node_inside_entry_point_scope_never_ran", {"nodes": lost, "entry": doc["entry"], "active": sorted(act)}))
                # on_missing = warn / ignore
                warned = [m for c, m in out.get("warnings", []) if c == "UserWarning" and "Requested outputs not found" in m]
                if out["status"] == "completed":
                    if doc["on_missing"] == "warn" and missing and len(warned) != 1:
                        viol.append((f"{tag}:on_missing_warn_count", {"warnings": len(warned), "missing": missing}))
                    if (doc["on_missing"] != "warn" or not missing) and warned:
                        viol.append((f"{tag}:unexpected_missing_output_warning", {"on_missing": doc["on_missing"], "missing": missing, "warnings": warned[:1]}))
                    if missing:
                        res["stats"]["probe_on_missing_" + doc["on_missing"]] = res["stats"].get("probe_on_missing_" + doc["on_missing"], 0) + 1
                # ---- the same configured graph through runner.map over ONE item: the item's result is the run's result
                if out["status"] == "completed" and not faults and not doc.get("interrupt") and isinstance(w["values"], dict):
                    gi = w["graph"].inputs.all
                    names = [k for k in sorted(w["values"]) if k in gi and isinstance(w["values"][k], int) and not isinstance(w["values"][k], bool)]
                    if names:
                        mname = names[0]
                        mvals = dict(w["values"])
                        # (two equal items when the selection is a one-shot iterator: it has to serve every item)
                        mvals[mname] = [mvals[mname]] * (2 if doc.get("rsel_tuple") == "generator" else 1)
                        wm = run_world(gs, mvals, mode=mode, cfg=doc["cfg"], run_kwargs=kw_now(map_over=mname), op="map", cache=cache, derive=derive, warm_values=wref["values"])
                        rts.append(wm["rt"])
                        res["runs"] += 1
                        om = wm["out"]
                        if om["status"] == "list" and len(om["items"]) == len(mvals[mname]):
                            res["stats"]["probe_map_of_one_item"] = res["stats"].get("probe_map_of_one_item", 0) + 1
                            for ii, it in enumerate(om["items"]):
                                if it["status"] != "completed" or canon(it["values"]) != canon(vals):
                                    viol.append((f"{tag}:map_item_result_differs_from_run_result", {"map_over": mname, "item_index": ii, "item": [it["status"], it["values"], it["error"]], "run": vals, "selection": eff, "selection_given_as": doc.get("rsel_tuple")}))
                                    break
                        elif not (om["status"] == "raised" and om["error"] and om["error"][0] in ("ValueError", "GraphConfigError", "MissingInputError", "IncompatibleRunnerError")):
                            viol.append((f"{tag}:map_of_one_item_unexpected_outcome", {"status": om["status"], "error": om["error"]}))
                if eff is not None and any(k not in (eff or []) for k in produced_all):
                    res["stats"]["probe_selection_removed_output"] = res["stats"].get("probe_selection_removed_output", 0) + 1
                # ---- the smallest step budget that lets the scoped run complete is the same under both runners
                if doc.get("budget_probe") and rd == 0 and cache is None and not faults and not doc.get("interrupt") and out["status"] == "completed":
                    for m in range(1, 10):
                        wb = run_world(gs, values, mode=mode, cfg=doc["cfg"], run_kwargs=dict(kw_now(), max_iterations=m), derive=derive, warm_values=wref["values"])
                        rts.append(wb["rt"])
                        res["runs"] += 1
                        ob = wb["out"]
                        if ob["status"] == "completed":
                            min_budget[mode] = m
                            break
                        if not (ob["status"] in ("failed", "raised") and ob["error"] and ob["error"][0] == "InfiniteLoopError"):
                            break
        if len(min_budget) == 2:
            res["stats"]["probe_smallest_step_budget_compared"] = 1
            if min_budget["sync"] != min_budget["async"]:
                viol.append(("smallest_sufficient_max_iterations_differs_between_runners", {"sync": min_budget["sync"], "async": min_budget["async"], "entry": doc.get("entry")}))
    except BuildError:
        res["discard"] = "build_error"
        return res
    st = res["stats"]
    res["violations"] = viol
    res["nontrivial"] = bool(st.get("probe_entrypoints_excluded_nodes") or st.get("probe_selection_removed_output") or st.get("outcome_failed") or st.get("outcome_paused"))
    res["shape"] = gen.shape_of(g)
    res["sched"] = digest(sigs, 6)
    res["sig"] = digest([res["shape"], canon(doc.get("entry")), canon(doc.get("gsel")), canon(doc.get("rsel")), doc["on_missing"], canon(doc.get("fault")), res["sched"]], 8)
    res["hdigest"] = hist_digest(rts)
    return res


def shrink_candidates(doc: dict):
    from checks.c02 import shrink_program

    if doc.get("kind") == "private_branches":
        if doc["order_seed"]:
            yield dict(doc, order_seed=0)
        return
    if doc.get("kind") == "ordered_chain":
        if doc["stages"] > 1:
            yield dict(doc, stages=doc["stages"] - 1)
        if doc["order_seed"]:
            yield dict(doc, order_seed=0)
        return

    for c in shrink_program(doc):
        names = {nd["name"] for nd in c["graph"]["nodes"]}
        if c.get("entry"):
            c["entry"] = [e for e in c["entry"] if e in names] or None
        outs = set(_declared_outputs(c["graph"]))
        if c.get("gsel"):
            c["gsel"] = [s for s in c["gsel"] if s in outs] or None
        if isinstance(c.get("rsel"), list):
            c["rsel"] = [s for s in c["rsel"] if s in outs] or None
        elif isinstance(c.get("rsel"), str) and c["rsel"] != "**" and c["rsel"] not in outs:
            c["rsel"] = None
        if c.get("interrupt") and c["interrupt"] not in names:
            c["interrupt"] = None
        if c.get("fault") and c["fault"]["node"] not in {n["name"] for n, _d in gen.fn_nodes(c["graph"])}:
            c["fault"] = None
        yield c
    for key in ("entry", "gsel", "rsel", "fault"):
        if doc.get(key):
            c = copy.deepcopy(doc)
            c[key] = None
            yield c
    if doc["on_missing"] != "ignore":
        c = copy.deepcopy(doc)
        c["on_missing"] = "ignore"
        yield c
    simple = {"schedule": {"mode": "delay", "seed": 0, "choices": [0], "delays": {}}, "shuffle": None, "max_concurrency": None}
    if doc["cfg"] != simple:
        c = copy.deepcopy(doc)
        c["cfg"] = simple
        yield c


def signature(doc: dict, cls: str, detail) -> str:
    return cls.split(":", 1)[-1]


def sample_repr(doc: dict, res: dict):
    from checks.c02 import sample_repr as sr

    if doc.get("kind") == "private_branches":
        return {"template": "explicit edges: two exclusive producers of one name, each with a consumer of its own", "entry": doc["entry"]}
    if doc.get("kind") == "ordered_chain":
        return {"template": "ordered pipeline whose stages re-produce the name they read", "entry": doc["entry"], "stages": doc["stages"]}

    d = {"graph": doc["graph"], "faults": [doc["fault"]] if doc.get("fault") else [], "max_iterations": None, "error_handling": "continue", "async": [doc["cfg"]], "sweep": False}
    out = sr(d, res)
    out.update({"entry_points": doc["entry"], "graph_select": doc["gsel"], "runtime_select": doc["rsel"], "on_missing": doc["on_missing"], "pausing_interrupt": doc["interrupt"]})
    return out


LEVEL_TEXT = (
    "Seeded exploration of (program, entry-point set, selections, on_missing, outcome kind) combinations under both runners: an execution monitor "
    "checks on the recorded history that no node outside the forward scope of the entry points was ever entered (the scope is recomputed from the "
    "spec's own data/control/ordering edges), and a result model checks keys, sentinel/internal-key absence at any list depth, agreement with the "
    "all-selected and the unscoped run, and the on_missing policy - also on FAILED (injected node failure) and PAUSED (pausing interrupt) results."
)
LEVEL_NOTE = "Trusts active_set/_declared_outputs in checks/c16.py. The schedule dimension is secondary for this property; the simulator supplies the failing and paused outcomes and the async runner's interleavings."
TECHNIQUE = "deterministic simulation; online scope monitor over the execution history + result-key model, on completed, failed (fault-injected) and paused runs"
DESIGN_REF = "DESIGN.md §4 C16"
