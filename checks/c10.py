"""C10 — map: one result per combination, in input order, equal to a single run."""

from __future__ import annotations

import copy
import itertools
import random

from hgsim.case import BuildError, completion_sig, fault_counts, hist_digest, run_world, sim_stats
from hgsim.driver import empty_result
from hgsim.util import canon, digest, mix

ID = "C10"
LEVEL = "exploration"
BUDGET = {"quick": (8, 400, 90), "thorough": (16, 10000, 600)}
RULE = (
    "seeded inner graphs (DAG, optional if/else block so that items take different branches, optional value-keyed failing items) mapped "
    "through runner.map and through a map_over graph node (optionally with renamed wrapper inputs/outputs and surrounded by producer/consumer "
    "nodes); 1-3 mapped parameters, zip and product, list lengths 0-4, broadcast values, clone False/True/[names], error_handling raise/continue; "
    "SyncRunner and AsyncRunner under SimLoop with adversarial per-item delays (reverse order, ties, random), max_concurrency None/1/2/3 (worker "
    "pool path) and ready-shuffle. Each combination is also executed alone as the reference. Non-trivial = >=2 items and (completion order "
    "differed from input order, or an item failed or branched); distinct = digest of (program shape, lists, mode, clone, fault, completion order)."
    " Also: broadcast inputs renamed on the wrapper together with clone lists, the failing node may be any inner function node (selected by the item run's input values), several kinds of injected exception."
)
ASSUMPTIONS = ["broadcast values are small lists so that clone identity can be observed", "items are distinguished by distinct list values"]


def gen_inner(rng: random.Random) -> dict:
    n_m = rng.choice([1, 1, 2, 3])
    mapped = [f"m{j}" for j in range(n_m)]
    bc = [f"b{j}" for j in range(rng.randint(0, 2))]
    nodes: list[dict] = []
    avail = []
    for j, m in enumerate(mapped):
        ps = [m] + ([rng.choice(bc)] if bc and rng.random() < 0.5 else [])
        nodes.append({"kind": "fn", "name": f"h{j}", "params": [{"name": p} for p in ps], "outs": [f"v{j}"]})
        avail.append(f"v{j}")
    for j in range(rng.randint(0, 3)):
        pool = avail + bc + mapped
        ps = rng.sample(pool, rng.randint(1, min(3, len(pool))))
        nout = rng.choice([1, 1, 2])
        outs = [f"w{j}_{t}" for t in range(nout)]
        nodes.append({"kind": "fn", "name": f"k{j}", "params": [{"name": p} for p in ps], "outs": outs})
        avail += outs
    branch = rng.random() < 0.4
    if branch:
        src = rng.choice(avail)
        nodes.append({"kind": "ifelse", "name": "br", "params": [{"name": src}], "when_true": "pa", "when_false": "pb", "default_open": False, "decide": {"op": "mod", "choices": [True, False]}})
        nodes.append({"kind": "fn", "name": "pa", "params": [{"name": src}], "outs": ["pp"]})
        nodes.append({"kind": "fn", "name": "pb", "params": [{"name": src}], "outs": ["pq"]})
    if rng.random() < 0.25:
        # a node that mutates its list-valued signature default and returns a snapshot: every item is a run of its own,
        # so every item starts from a fresh copy of the default - through runner.map and through a mapping node alike
        nodes.append({"kind": "fn", "name": "md", "params": [{"name": mapped[0]}, {"name": "accd", "default": []}], "outs": ["md_o"], "beh": "snapshot", "beh_param": "accd"})
    order = list(range(len(nodes)))
    rng.shuffle(order)
    return {"name": "inner", "nodes": nodes, "order": order, "mapped": mapped, "bc": bc, "branch": branch}


def gen_case(rng: random.Random, tier: str) -> dict:
    inner = gen_inner(rng)
    mapped = inner["mapped"]
    mode = rng.choice(["zip", "zip", "product"])
    if mode == "zip":
        n = rng.choice([0, 1, 2, 3, 4, 4])
        lens = {m: n for m in mapped}
    else:
        lens = {m: rng.choice([0, 1, 2, 2, 3]) for m in mapped}
        while len(mapped) > 1 and _prod(lens.values()) > 16:
            lens[rng.choice(mapped)] -= 1
    lists = {m: [100 * (j + 1) + t for t in range(lens[m])] for j, m in enumerate(mapped)}
    broadcast = {b: [mix("bc", b) % 1000] for b in inner["bc"]}
    clone = rng.choice([False, False, True, "names"])
    if clone == "names":
        clone = rng.sample(inner["bc"], rng.randint(0, len(inner["bc"]))) if inner["bc"] else False
    fault = None
    if rng.random() < 0.4 and lists[mapped[0]]:
        j = rng.randrange(len(mapped))
        if lists[mapped[j]]:
            # the failing node may be any function node of the inner graph (later nodes leave partial values behind);
            # the item is selected by the input values of its run
            fnode = rng.choice([nd["name"] for nd in inner["nodes"] if nd["kind"] == "fn"])
            fault = {"kind": "raise", "node": fnode, "run_pred": {mapped[j]: rng.choice(lists[mapped[j]])}, "fid": 0, "when": rng.choice(["before", "after"]), "exc": rng.choice(["plain", "plain", "noargs", "keyerror"])}
    fault2 = None
    if fault and rng.random() < 0.5:
        # a second failing item (another value of the same mapped parameter): in raise mode the error of the FIRST failing item in
        # input order propagates, whichever of them fails first in time
        j2 = mapped.index(next(iter(fault["run_pred"])))
        others = [v for v in lists[mapped[j2]] if v != fault["run_pred"][mapped[j2]]]
        if others:
            fault2 = dict(fault, run_pred={mapped[j2]: rng.choice(others)}, fid=1, node=rng.choice([nd["name"] for nd in inner["nodes"] if nd["kind"] == "fn"]))
    via = rng.choice(["runner_map", "node", "node"])
    outer = {"rename_in": rng.random() < 0.3, "rename_out": rng.random() < 0.3, "consumer": rng.random() < 0.5,
             "touch": rng.random() < 0.3,
             "rename_after_map": rng.random() < 0.4,  # with_inputs/with_outputs called after map_over instead of before
             "inner_bind_equal": rng.random() < 0.25,  # the inner graph binds a broadcast input to an EQUAL (not identical) value
             "inner_select": rng.random() < 0.25,  # runner.map on a graph that carries a default selection
             # the mapping node object is first configured differently and EXECUTED, then re-configured (map_over called again on that
             # very object) into the node under test: nothing of the earlier configuration may survive
             "reconfigure": rng.random() < 0.25,
             # the list of the first mapped parameter is not supplied by the caller: it is the inner graph's own binding, or the
             # signature default of the inner functions (mapping-node mode)
             "mapped_source": rng.choice([None, None, None, "inner_bind", "inner_default"])}
    map_order = list(mapped)
    rng.shuffle(map_order)  # declared map_over order (the axis order of a product) need not be the signature order
    cfgs = []
    for _ in range(2):
        style = rng.choice(["reverse", "ties", "random", "random"])
        sch = {"mode": "delay", "seed": rng.randrange(1 << 30), "choices": rng.choice([[0, 1, 2, 3], [0], [1, 1, 2, 5, None]]), "delays": {}}
        if style in ("reverse", "ties") and lists[mapped[0]]:
            vals = lists[mapped[0]]
            sch["arg_delay"] = {"param": mapped[0], "table": {str(v): (len(vals) - t) * 3 if style == "reverse" else 2 for t, v in enumerate(vals)}}
        cfgs.append({"schedule": sch, "shuffle": rng.randrange(1 << 30) if rng.random() < 0.2 else None, "max_concurrency": rng.choice([None, None, 1, 2, 3])})
    return {"inner": inner, "map_mode": mode, "lists": lists, "broadcast": broadcast, "clone": clone, "error_handling": rng.choice(["raise", "continue"]), "fault": fault, "fault2": fault2, "via": via,
            # shape of each broadcast value: a list, a tuple holding a list, a dict holding a list (clone means DEEP copy per item)
            "bc_shape": {b: rng.choice(["list", "list", "tuple", "dict"]) for b in inner["bc"]}, "outer": outer, "async": cfgs, "map_order": map_order}


def _prod(xs) -> int:
    p = 1
    for x in xs:
        p *= x
    return p


def combos(doc: dict) -> list[dict]:
    """The 5-line model: zip is position-wise, product is row-major in map_over order."""
    mapped = doc.get("map_order") or doc["inner"]["mapped"]
    lists = doc["lists"]
    if doc["map_mode"] == "zip":
        n = len(lists[mapped[0]])
        return [{m: lists[m][i] for m in mapped} for i in range(n)]
    return [dict(zip(mapped, c)) for c in itertools.product(*[lists[m] for m in mapped])]


def _outer_spec(doc: dict) -> tuple[dict, dict, dict]:
    """Wrap the inner graph as a map_over node; returns (spec, input rename map, output rename map)."""
    inner = doc["inner"]
    mapped = inner["mapped"]
    rin = {m: f"R{m}" for m in mapped[:1]} if doc["outer"]["rename_in"] else {}
    if doc["outer"]["rename_in"]:
        used = {p["name"] for nd in inner["nodes"] for p in nd.get("params", [])}
        for b in inner["bc"][:1]:
            if b in used:
                rin[b] = f"R{b}"  # a broadcast input is renamed as well (clone lists are given in the renamed namespace)
    outs = [o for nd in inner["nodes"] if nd["kind"] == "fn" for o in nd["outs"]]
    rout = {outs[0]: f"R{outs[0]}"} if (doc["outer"]["rename_out"] and outs) else {}
    renames = []
    if rin:
        renames.append({"inputs": rin})
    if rout:
        renames.append({"outputs": rout})
    clone = doc["clone"]
    if isinstance(clone, list):
        clone = [rin.get(c, c) for c in clone]
    order = doc.get("map_order") or mapped
    node = {
        "kind": "graph",
        "name": "inner",
        "graph": _inner_spec(doc),
        "renames": renames,
        "map_over": [rin.get(m, m) for m in order],
        "map_mode": doc["map_mode"],
        "error_handling": doc["error_handling"],
        "clone": clone,
    }
    if doc["outer"].get("touch"):
        node["touch"] = ["spec"]  # the wrapper object is USED (introspected, asked to translate names) before the renames derive from it
    if doc["outer"].get("rename_after_map") and renames:
        # configure the mapping in the original names first, rename afterwards
        node["renames"] = []
        node["renames_after"] = renames
        node["map_over"] = list(order)
        node["clone"] = doc["clone"]
    nodes = [node]
    if doc["outer"]["consumer"] and outs:
        nodes.append({"kind": "fn", "name": "cons", "params": [{"name": rout.get(outs[-1], outs[-1])}], "outs": ["z"]})
    return {"name": "outer", "nodes": nodes, "order": list(range(len(nodes)))}, rin, rout


def _run_reconfigured(ospec: dict, vals: dict, label: str, cfg) -> dict:
    """Build the outer graph with the mapping node configured DIFFERENTLY (fewer mapped parameters or another order, other clone setting),
    run it once, then call map_over again on that very node object to obtain the configuration under test, and run that."""
    import hypergraph as hg

    final = ospec["nodes"][0]
    first = dict(final)
    mo = list(final["map_over"])
    first["map_over"] = mo[:1] if len(mo) > 1 else mo
    if len(mo) > 1 and final.get("map_mode") == "product":
        first["map_over"] = list(reversed(mo))
    first["clone"] = not bool(final.get("clone"))
    first["error_handling"] = "continue"
    spec0 = dict(ospec, nodes=[first] + list(ospec["nodes"][1:]))
    box: dict = {}

    def prep(rt, graph, comp):
        box["comp"] = comp

    def derive(graph):
        comp = box["comp"]
        m2 = comp.nodes["inner"].map_over(*final["map_over"], mode=final.get("map_mode", "zip"), error_handling=final.get("error_handling", "raise"), clone=final.get("clone", False))
        others = [comp.nodes[nd["name"]] for nd in ospec["nodes"][1:]]
        return hg.Graph([m2] + others, name="outer")

    w = run_world(spec0, vals, mode=label, cfg=cfg, run_kwargs={"error_handling": "raise"}, prepare=prep, derive=derive, warm_values=vals)
    hist = w["rt"].history
    mk = [i for i, h in enumerate(hist) if h["k"] == "derive_marker"]
    if mk:
        w["rt"].history = hist[mk[-1] + 1 :]
    return w


def _inner_spec(doc: dict, *, for_runner_map: bool = False) -> dict:
    inner = doc["inner"]
    spec = {k: v for k, v in inner.items() if k in ("name", "nodes", "order")}
    used = {p["name"] for nd in inner["nodes"] for p in nd.get("params", [])}
    if doc["outer"].get("inner_bind_equal"):
        bc = [b for b in inner["bc"] if b in used]
        if bc:
            spec = dict(spec, bind={bc[0]: list(doc["broadcast"][bc[0]])})
    src = doc["outer"].get("mapped_source")
    if src and not for_runner_map and doc["via"] == "node":
        m0 = inner["mapped"][0]
        lst = list(doc["lists"][m0])
        if src == "inner_bind":
            spec = dict(spec, bind=dict(spec.get("bind") or {}, **{m0: lst}))
        else:
            nodes = copy.deepcopy(spec["nodes"])
            for nd in nodes:
                for q in nd.get("params", []):
                    if q["name"] == m0:
                        q["default"] = list(lst)
            spec = dict(spec, nodes=nodes)
    if for_runner_map and doc["outer"].get("inner_select"):
        outs = [o for nd in inner["nodes"] if nd["kind"] == "fn" for o in nd["outs"]]
        if outs:
            spec = dict(spec, select=outs[: max(1, len(outs) // 2)])
    return spec


def _bc_values(doc: dict) -> dict:
    out = {}
    for b, v in doc["broadcast"].items():
        shape = (doc.get("bc_shape") or {}).get(b, "list")
        if doc["outer"].get("inner_bind_equal"):
            shape = "list"
        out[b] = list(v) if shape == "list" else ((list(v),) if shape == "tuple" else {"k": list(v)})
    return out


def _inner_parts(o) -> list:
    """The mutable objects held inside a broadcast value (for deep-copy identity checks)."""
    if isinstance(o, tuple):
        return [x for x in o if isinstance(x, (list, dict))]
    if isinstance(o, dict):
        return [x for x in o.values() if isinstance(x, (list, dict))]
    return []


def _item_summary(o: dict) -> list:
    return [o["status"], canon(o["values"]), o["error"]]


def run_case(doc: dict) -> dict:
    res = empty_result()
    inner = doc["inner"]
    ispec = _inner_spec(doc, for_runner_map=(doc["via"] == "runner_map"))
    mapped = inner["mapped"]
    cs = combos(doc)
    faults = [f for f in (doc.get("fault"), doc.get("fault2")) if f]
    viol: list = []
    rts = []
    sigs = []
    nontrivial = False
    try:
        # reference: every combination executed alone
        refs = []
        for c in cs:
            vals = {**_bc_values(doc), **c}
            w = run_world(ispec, vals, mode="sync", faults=copy.deepcopy(faults), run_kwargs={"error_handling": "continue"})
            rts.append(w["rt"])
            res["runs"] += 1
            refs.append(w["out"])
        failing = [i for i, r in enumerate(refs) if r["status"] == "failed"]
        bvals = _bc_values(doc)
        plans = [("sync", None)] + [("async", c) for c in doc["async"]]
        for label, cfg in plans:
            tag = label
            if doc["via"] == "runner_map":
                vals = {**bvals, **{m: list(doc["lists"][m]) for m in mapped}}
                kw = {"map_over": list(doc.get("map_order") or mapped), "map_mode": doc["map_mode"], "clone": doc["clone"], "error_handling": doc["error_handling"]}
                w = run_world(ispec, vals, mode=label, cfg=cfg, faults=copy.deepcopy(faults), run_kwargs=kw, op="map")
                _judge_runner_map(doc, w, refs, failing, cs, tag, viol)
            else:
                ospec, rin, rout = _outer_spec(doc)
                vals = {**{rin.get(b, b): v for b, v in bvals.items()}, **{rin.get(m, m): list(doc["lists"][m]) for m in mapped}}
                if doc["outer"].get("mapped_source"):
                    vals.pop(rin.get(mapped[0], mapped[0]), None)  # not supplied: comes from the inner binding / default
                    res["stats"]["mapped_list_from_inner_binding_or_default"] = 1
                if doc["outer"].get("reconfigure") and not faults and not doc["outer"].get("rename_after_map") and ospec["nodes"][0].get("map_over"):
                    w = _run_reconfigured(ospec, vals, label, cfg)
                    res["stats"]["mapping_node_reconfigured_after_use"] = res["stats"].get("mapping_node_reconfigured_after_use", 0) + 1
                else:
                    w = run_world(ospec, vals, mode=label, cfg=cfg, faults=copy.deepcopy(faults), run_kwargs={"error_handling": "raise"})
                _judge_node(doc, w, refs, failing, cs, rout, tag, viol)
                vals = {b: vals[rin.get(b, b)] for b in bvals}  # back to the inner names for the identity check
            _judge_clone(doc, w, vals, cs, tag, viol)
            rts.append(w["rt"])
            res["runs"] += 1
            sim_stats(res, w["out"])
            fault_counts(w["rt"], res["stats"])
            if w["out"]["status"] in ("deadlock", "step_cap"):
                viol.append((f"{tag}:{w['out']['status']}", {}))
            sigs.append(completion_sig(w["rt"]))
            if label == "async" and len(cs) >= 2:
                akey = {h["key"]: h["a"] for h in w["rt"].history if h["k"] == "enter"}
                order = [akey[h["key"]].get(mapped[0]) for h in w["rt"].history if h["k"] == "exit" and h["n"] == "h0"]
                if order != sorted(order):
                    nontrivial = True
                    res["stats"]["probe_completion_order_differs_from_input_order"] = 1
                if cfg.get("max_concurrency") is not None:
                    res["stats"]["probe_worker_pool_path"] = 1
        if len(cs) >= 2 and (failing or inner["branch"]):
            nontrivial = True
        if failing:
            res["stats"]["cases_with_failing_item"] = 1
        if inner["branch"]:
            res["stats"]["cases_with_branching_items"] = 1
        if not cs:
            res["stats"]["cases_with_zero_combinations"] = 1
    except BuildError:
        res["discard"] = "build_error"
        return res
    res["violations"] = viol
    res["nontrivial"] = nontrivial
    res["shape"] = digest([ispec["nodes"], doc["via"], doc["outer"]], 8)
    res["sched"] = digest(sigs, 6)
    res["sig"] = digest([res["shape"], canon(doc["lists"]), doc["map_mode"], canon(doc["clone"]), canon(doc["fault"]), canon(doc.get("fault2")), doc["error_handling"], res["sched"]], 8)
    res["hdigest"] = hist_digest(rts)
    return res


def _lowest_failing_obj(doc: dict, w: dict, cs: list, failing: list, mapped: list) -> object | None:
    """The injected exception object raised inside the lowest-index failing item.

    Items are identified by the digest of the item run's input values (the run label the traced
    runner recorded), because the failing node may see only some of the mapped parameters."""
    if not failing:
        return None
    want = cs[failing[0]]
    for objs in w["rt"].raised.values():
        for e in objs:
            rv = getattr(e, "run_values", None) or {}
            if all(m in rv and rv[m] == want[m] for m in mapped):
                return e
    return None


def _judge_runner_map(doc, w, refs, failing, cs, tag, viol) -> None:
    out = w["out"]
    mapped = doc["inner"]["mapped"]
    if doc["error_handling"] == "raise" and failing:
        if out["status"] != "raised":
            viol.append((f"{tag}:map_raise_mode_did_not_raise", {"status": out["status"], "failing_items": failing}))
            return
        exp = _lowest_failing_obj(doc, w, cs, failing, mapped)
        if exp is None or out["err_obj"] is not exp:
            viol.append((f"{tag}:map_raised_error_is_not_first_failing_items", {"error": out["error"], "args_of_raised": getattr(out["err_obj"], "args_seen", None), "first_failing_combo": cs[failing[0]]}))
        return
    if out["status"] != "list":
        viol.append((f"{tag}:map_did_not_return_results", {"status": out["status"], "error": out["error"]}))
        return
    items = out["items"]
    if len(items) != len(cs):
        viol.append((f"{tag}:map_result_count", {"got": len(items), "combinations": len(cs)}))
        return
    for i, (it, rf) in enumerate(zip(items, refs)):
        if it["status"] == "failed" and rf["status"] == "failed" and it["error"] == rf["error"]:
            # failing item: the async runner legitimately returns a superset of the sync partial values (C02)
            iv, rv = it["values"] or {}, rf["values"] or {}
            if all(k in iv and canon(iv[k]) == canon(v) for k, v in rv.items()):
                continue
        if _item_summary(it) != _item_summary(rf):
            viol.append((f"{tag}:map_item_differs_from_single_run", {"index": i, "combo": cs[i], "map": _item_summary(it), "single": _item_summary(rf)}))
            break


def _judge_node(doc, w, refs, failing, cs, rout, tag, viol) -> None:
    out = w["out"]
    inner = doc["inner"]
    mapped = inner["mapped"]
    if doc["error_handling"] == "raise" and failing:
        if out["status"] != "raised":
            viol.append((f"{tag}:mapping_node_raise_mode_did_not_raise", {"status": out["status"]}))
            return
        exp = _lowest_failing_obj(doc, w, cs, failing, mapped)
        if exp is None or out["err_obj"] is not exp:
            viol.append((f"{tag}:mapping_node_error_is_not_first_failing_items", {"error": out["error"], "args_of_raised": getattr(out["err_obj"], "args_seen", None), "first_failing_combo": cs[failing[0]]}))
        return
    if out["status"] != "completed":
        viol.append((f"{tag}:mapping_node_run_not_completed", {"status": out["status"], "error": out["error"]}))
        return
    vals = out["values"]
    names = [o for nd in inner["nodes"] if nd["kind"] == "fn" for o in nd["outs"]]
    for name in names:
        ext = rout.get(name, name)
        if ext not in vals:
            viol.append((f"{tag}:mapping_node_output_missing", {"output": ext}))
            continue
        got = vals[ext]
        exp = [None if rf["status"] == "failed" else (rf["values"] or {}).get(name) for rf in refs]
        if not isinstance(got, list) or len(got) != len(cs):
            viol.append((f"{tag}:mapping_node_list_length", {"output": ext, "got_len": len(got) if isinstance(got, list) else None, "combinations": len(cs), "got": got, "expected": exp}))
        elif canon(got) != canon(exp):
            viol.append((f"{tag}:mapping_node_entry_misaligned", {"output": ext, "got": got, "expected": exp}))


def _judge_clone(doc, w, vals, cs, tag, viol) -> None:
    """Identity of broadcast objects follows ``clone``."""
    clone = doc["clone"]
    rt = w["rt"]
    for b in doc["inner"]["bc"]:
        orig = vals.get(b)
        if orig is None:
            continue
        cloned = clone is True or (isinstance(clone, list) and b in clone)
        seen_by_item: dict[str, list] = {}
        for h in rt.history:
            if h["k"] == "enter" and b in h.get("objs", {}):
                seen_by_item.setdefault(h["r"], []).append(h["objs"][b])
        objs = [o for lst in seen_by_item.values() for o in lst]
        if not objs:
            continue
        if not cloned:
            if any(o is not orig for o in objs):
                viol.append((f"{tag}:broadcast_value_copied_without_clone", {"param": b}))
        else:
            if any(o is orig for o in objs) or any(x is y for o in objs for x in _inner_parts(o) for y in _inner_parts(orig)):
                viol.append((f"{tag}:broadcast_value_shared_despite_clone", {"param": b, "shape": type(orig).__name__}))
            firsts = [lst[0] for lst in seen_by_item.values()]
            if len({id(o) for o in firsts}) != len(firsts):
                viol.append((f"{tag}:clone_shared_between_items", {"param": b}))
            if any(canon(o) != canon(orig) for o in objs):
                viol.append((f"{tag}:clone_value_differs", {"param": b}))


def shrink_candidates(doc: dict):
    inner = doc["inner"]
    for i in reversed(range(len(inner["nodes"]))):
        nd = inner["nodes"][i]
        if nd["name"].startswith("h"):
            continue
        c = copy.deepcopy(doc)
        del c["inner"]["nodes"][i]
        c["inner"]["order"] = [j if j < i else j - 1 for j in c["inner"]["order"] if j != i]
        if nd["name"] in ("br", "pa", "pb"):
            c["inner"]["nodes"] = [n for n in c["inner"]["nodes"] if n["name"] not in ("br", "pa", "pb")]
            c["inner"]["order"] = list(range(len(c["inner"]["nodes"])))
            c["inner"]["branch"] = False
        yield c
    for m in inner["mapped"]:
        if doc["lists"][m]:
            c = copy.deepcopy(doc)
            if doc["map_mode"] == "zip":
                for mm in inner["mapped"]:
                    c["lists"][mm] = c["lists"][mm][:-1]
            else:
                c["lists"][m] = c["lists"][m][:-1]
            if c.get("fault") and not any(c["fault"]["run_pred"].get(mm) in c["lists"][mm] for mm in inner["mapped"] if mm in c["fault"]["run_pred"]):
                c["fault"] = None
            yield c
    if doc.get("fault2"):
        c = copy.deepcopy(doc)
        c["fault2"] = None
        yield c
    if doc.get("fault"):
        c = copy.deepcopy(doc)
        c["fault"] = c.get("fault2")
        c["fault2"] = None
        yield c
    if doc["clone"] is not False:
        c = copy.deepcopy(doc)
        c["clone"] = False
        yield c
    for k in ("rename_in", "rename_out", "consumer", "rename_after_map", "inner_bind_equal", "inner_select", "touch"):
        if doc["outer"].get(k):
            c = copy.deepcopy(doc)
            c["outer"][k] = False
            yield c
    if len(doc["async"]) > 1:
        for i in range(len(doc["async"])):
            c = copy.deepcopy(doc)
            del c["async"][i]
            yield c
    for i, a in enumerate(doc["async"]):
        simple = {"schedule": {"mode": "delay", "seed": 0, "choices": [0], "delays": {}}, "shuffle": None, "max_concurrency": a["max_concurrency"]}
        if a != simple:
            c = copy.deepcopy(doc)
            c["async"][i] = simple
            yield c
        if a["max_concurrency"] is not None:
            c = copy.deepcopy(doc)
            c["async"][i]["max_concurrency"] = None
            yield c


def signature(doc: dict, cls: str, detail) -> str:
    return cls.split(":", 1)[-1]


def sample_repr(doc: dict, res: dict):
    return {
        "inner": [[n["kind"], n["name"], [p["name"] for p in n["params"]], n.get("outs") or [n.get("when_true"), n.get("when_false")]] for n in doc["inner"]["nodes"]],
        "map_over": doc["inner"]["mapped"], "mode": doc["map_mode"], "lists": doc["lists"], "broadcast": doc["broadcast"], "clone": doc["clone"],
        "error_handling": doc["error_handling"], "fault": doc["fault"], "via": doc["via"], "outer": doc["outer"],
        "schedules": [{"k": a["max_concurrency"], "arg_delay": a["schedule"].get("arg_delay"), "shuffle": a["shuffle"] is not None} for a in doc["async"]],
    }


LEVEL_TEXT = (
    "Seeded exploration: generated inner graphs are mapped through runner.map and through map_over graph nodes under both runners; under the "
    "async runner the simulator chooses per-item completion orders adversarially (reverse, ties, random) and the worker-pool path is exercised "
    "with max_concurrency 1-3. Every combination is additionally executed alone and is the reference for result i; list length, alignment, None "
    "placeholders, raise-mode error identity (lowest failing index) and clone identity of broadcast objects are checked."
)
LEVEL_NOTE = "Reference = the same inner graph run once per combination by the sync runner (differential against the simplest configuration) plus a 5-line combination model."
TECHNIQUE = "deterministic simulation with adversarial per-item completion orders; per-combination single run as reference model"
DESIGN_REF = "DESIGN.md §4 C10"
