"""C11 — errors surface unwrapped; partial results are exactly the completed work (failure-point enumeration)."""

from __future__ import annotations

import copy
import random

from hgsim import gen
from hgsim.case import BuildError, fault_counts, fill_values, hist_digest, run_world, sim_stats
from hgsim.driver import empty_result
from hgsim.procs import SyncProc
from hgsim.spec import iter_nodes
from hgsim.util import canon, digest

ID = "C11"
LEVEL = "fault_enumeration"
BUDGET = {"quick": (8, 100, 90), "thorough": (16, 2500, 600)}
RULE = (
    "seeded general programs (flat, nested to depth 2, mapped, gated, looping); a fault-free reference run lists every (function node, "
    "invocation index<2) that occurs; EVERY such point is then injected as the failing one, one at a time (plus sampled pairs in one step), "
    "under run (raise and continue) and top-level map (raise and continue), SyncRunner and AsyncRunner under seeded schedules. "
    "Non-trivial = the injected failure actually fired; distinct = digest of (program shape, failure point, mode, completion order)."
    ' Failure points include routing functions of gates (with and without a fallback target). Also: six kinds of injected exception (with/without arguments, TypeError with a call-mismatch text, KeyError, ValueError, an exception whose truth value is False; StopIteration from plain synchronous functions under the sync runner); an event processor attached to the failing runs, explicit select of all data outputs with on_missing="error" on the failing runs, partial values of failed items of a top-level map compared between the runners (key presence), and a map in which exactly one item fails (fault conditioned on the input of that item): the FAILED result must sit at the position of that item under bounded concurrency and out-of-order completion.'
)
ASSUMPTIONS = [
    "the state before the failing step equals the fault-free run's state before that step (checked differentially through the step tap)",
    "mapped graph nodes use error_handling='raise' here; collected errors are covered by the top-level map variant",
]
MAX_POINTS = {"quick": 10, "thorough": 16}


def gen_case(rng: random.Random, tier: str) -> dict:
    g = gen.gen_program(rng, max_nodes=8 if tier == "thorough" else 6)
    for nd, _d, _p in iter_nodes(g):
        if nd["kind"] == "graph" and nd.get("map_over"):
            nd["error_handling"] = "raise"
    inp = gen.program_inputs(rng, g, list_len=(1, 3))
    return {
        "graph": g,
        "inputs": inp,
        "async": [gen.gen_async_cfg(rng, allow_hold=True) for _ in range(3)],
        "max_iterations": rng.choice([None, None, 6, 10]) if g["seeds"] else None,
        "pair_seed": rng.randrange(1 << 30),
        "top_map": rng.random() < 0.3,
        "with_processor": rng.random() < 0.3,  # an event processor is attached to the failing runs (building the error event must not mask the error)
        "explicit_select": rng.random() < 0.3,  # select=<all data outputs>, on_missing="error": must not change how failures surface
        "tier": tier,
        "only_points": None,
    }


def _top_outs(nd: dict) -> list[str]:
    if nd["kind"] == "graph":
        return gen.program_outputs(nd["graph"]) + list(nd.get("emit", []))
    return list(nd.get("outs", [])) + list(nd.get("emit", []))


def _owner_map(g: dict) -> dict[str, str]:
    """function node name (any depth) -> top-level node containing it"""
    own: dict[str, str] = {}
    for nd in g["nodes"]:
        if nd["kind"] == "graph":
            for inner, _d, _p in iter_nodes(nd["graph"]):
                own[inner["name"]] = nd["name"]
        own[nd["name"]] = nd["name"]
    return own


def _emit_names(g: dict) -> set[str]:
    return {e for nd, _d, _p in iter_nodes(g) for e in nd.get("emit", [])}


def _top_steps(rt, top_label: str) -> list[dict]:
    steps: list[dict] = []
    cur = None
    for h in rt.history:
        if h.get("r") != top_label:
            continue
        if h["k"] == "step_begin":
            cur = {"ready": h["ready"], "ok": None, "vals": None}
            steps.append(cur)
        elif h["k"] == "step_end" and cur is not None:
            cur["ok"] = h.get("ok")
            cur["vals"] = h.get("vals")
    return steps


def _top_label(rt) -> str | None:
    for h in rt.history:
        if h["k"] == "run_begin" and h.get("depth") == 1:
            return h["r"]
    return None


def _check_partial(doc, ref_steps, init_vals, w, label, failing_nodes, viol) -> None:
    g = doc["graph"]
    out, rt = w["out"], w["rt"]
    if not getattr(rt, "tap_active", False):
        return
    tl = _top_label(rt)
    steps = _top_steps(rt, tl)
    if not steps or steps[-1]["ok"] is not False:
        return  # failure did not surface through a top-level step (e.g. InfiniteLoopError)
    S = len(steps) - 1
    if S >= len(ref_steps):
        viol.append((f"{label}:failing_run_took_more_steps_than_reference", {"S": S, "ref": len(ref_steps)}))
        return
    before = init_vals if S == 0 else ref_steps[S - 1]["vals"]
    after = ref_steps[S]["vals"]
    if before is None or after is None:
        return
    emits = _emit_names(g)
    own = _owner_map(g)
    fail_top = {own.get(n, n) for n in failing_nodes}
    produced_by: dict[str, str] = {}
    for nd in g["nodes"]:
        if nd["name"] in ref_steps[S]["ready"]:
            for o in _top_outs(nd):
                produced_by[o] = nd["name"]
    part = out["values"] or {}
    all_outs = [o for nd in g["nodes"] for o in _top_outs(nd) if o not in emits]
    for k in part:
        if k not in all_outs and k not in emits:  # signal names are C16's business
            viol.append((f"{label}:partial_has_non_output_key", {"key": k}))
    for k in all_outs:
        has_b = k in before
        pb = produced_by.get(k)
        if pb in fail_top:
            allowed = [before[k]] if has_b else []
            may_absent = not has_b
        elif pb is not None:
            allowed = ([before[k]] if has_b else []) + ([after[k]] if k in after else [])
            may_absent = not has_b
        else:
            allowed = [before[k]] if has_b else []
            may_absent = not has_b
        if k in part:
            if not any(canon(part[k]) == canon(a) for a in allowed):
                kind = "output_of_failing_node_present" if pb in fail_top else "partial_value_wrong"
                viol.append((f"{label}:{kind}", {"key": k, "got": part[k], "allowed": allowed, "failing": sorted(fail_top)}))
        elif not may_absent:
            viol.append((f"{label}:completed_value_missing_from_partial", {"key": k, "expected": before[k]}))


def _tag(viol: list, start: int, plan) -> None:
    """Attach the failure point to violations recorded since ``start`` (used to narrow before shrinking)."""
    if plan is None:
        return
    for i in range(start, len(viol)):
        c, d = viol[i]
        if isinstance(d, dict) and "point" not in d:
            d = dict(d, point=[list(p) for p in plan])
            viol[i] = (c, d)


def _identity(out, rt, fids) -> bool:
    e = out.get("err_obj")
    return any(e is x for fid in fids for x in rt.raised.get(fid, []))


def run_case(doc: dict) -> dict:
    res = empty_result()
    g = doc["graph"]
    tier = doc.get("tier", "quick")
    values = fill_values(doc["inputs"], keep=g.get("seeds", []))
    kw0 = {}
    if doc.get("max_iterations"):
        kw0["max_iterations"] = doc["max_iterations"]
    kwsel = {}
    if doc.get("explicit_select"):
        emits0 = _emit_names(g)
        names = [o for nd in g["nodes"] for o in _top_outs(nd) if o not in emits0]
        if names:
            kwsel = {"select": list(dict.fromkeys(names)), "on_missing": "error"}
    viol: list = []
    rts = []
    try:
        ref = run_world(g, values, mode="sync", run_kwargs=dict(kw0, error_handling="continue"))
    except BuildError:
        res["discard"] = "build_error"
        return res
    rts.append(ref["rt"])
    res["runs"] += 1
    if ref["out"]["status"] == "raised":
        res["discard"] = "rejected_by_validation"
        return res
    tl = _top_label(ref["rt"])
    ref_steps = _top_steps(ref["rt"], tl)
    init_vals = dict(ref["values"])
    # failure points: every (fn node, invocation index < 2) of the reference history
    points: list[tuple[str, int]] = []
    seen = set()
    step_of: dict[tuple[str, int], int] = {}
    own = _owner_map(g)
    top_step = -1
    gate_points: set = set()
    for h in ref["rt"].history:
        if h["k"] == "step_begin" and h.get("r") == tl:
            top_step += 1
        if h["k"] == "enter" and h.get("nk") in ("fn", "gate"):  # a routing function is a node function too
            key = (h["n"], h["i"])
            if h.get("nk") == "gate":
                gate_points.add(key)
            if h["i"] < 2 and key not in seen:
                seen.add(key)
                points.append(key)
                step_of[key] = top_step
    rng = random.Random(doc["pair_seed"])
    if doc.get("only_points") is not None:
        plans = [[tuple(p) for p in plan] for plan in doc["only_points"]]
    else:
        cap = MAX_POINTS.get(tier, 10)
        pts = points if len(points) <= cap else rng.sample(points, cap)
        plans = [[p] for p in pts]
        # sampled pairs failing in the same top-level step, in different top-level nodes
        pairs = [(a, b) for i, a in enumerate(points) for b in points[i + 1 :] if step_of[a] == step_of[b] and own.get(a[0]) != own.get(b[0])]
        rng.shuffle(pairs)
        plans += [list(p) for p in pairs[:3]]
    fired_any = False
    sigs = []
    v_mark = 0
    last_plan = None
    for pi, plan in enumerate(plans):
        last_plan = plan
        kinds = ["plain", "noargs", "typeerror_kw", "keyerror", "valueerror", "falsy", "badstr"]
        faults = [
            {"kind": "raise", "node": n, "inv": i, "when": "before" if ((pi + fi) % 2 == 0 or (n, i) in gate_points) else "after", "fid": fi, "exc": kinds[(pi + fi + doc["pair_seed"]) % len(kinds)]}
            for fi, (n, i) in enumerate(plan)
        ]
        fids = list(range(len(plan)))
        failing_nodes = [n for n, _ in plan]
        cfgs = doc["async"]
        variants = [
            ("sync", "raise", None),
            ("sync", "continue", None),
            ("async", "raise", cfgs[pi % len(cfgs)]),
            ("async", "continue", cfgs[(pi + 1) % len(cfgs)]),
        ]
        if tier == "thorough":
            variants.append(("async", "continue", cfgs[(pi + 2) % len(cfgs)]))
        for mode, eh, cfg in variants:
            label = f"{mode}_{eh}"
            v_mark = len(viol)
            vfaults = copy.deepcopy(faults)
            if mode == "sync" and (pi + doc["pair_seed"]) % 4 == 3:
                # a plain synchronous function raising StopIteration (not inside generator nodes, where Python turns it into RuntimeError)
                for f in vfaults:
                    if not (ref["rt"].node_specs.get(f["node"]) or {}).get("gen"):
                        f["exc"] = "stopiteration"
            elif (pi + doc["pair_seed"]) % 4 == 1:
                # the node raises with an explicit cause (raise X from Y): X is the error of the node, under both runners (seeded C11-13)
                for f in vfaults:
                    f["exc"] = "chained"
            pf = (lambda rt: [SyncProc(rt, "obs")]) if doc.get("with_processor") else None
            w = run_world(g, values, mode=mode, cfg=cfg, faults=vfaults, run_kwargs=dict(kw0, error_handling=eh, **kwsel), processors_factory=pf)
            rts.append(w["rt"])
            res["runs"] += 1
            sim_stats(res, w["out"])
            fault_counts(w["rt"], res["stats"])
            out, rt = w["out"], w["rt"]
            if not rt.fired:
                res["stats"]["fault_planned_but_not_reached"] = res["stats"].get("fault_planned_but_not_reached", 0) + 1
                # with two faults the second may be unreachable; with one it must fire (same prefix as reference)
                if len(plan) == 1:
                    viol.append((f"{label}:failure_point_not_reached", {"point": [list(p) for p in plan], "status": out["status"]}))
                continue
            fired_any = True
            sigs.append(digest([plan, mode, eh, [f["key"] for f in rt.fired]], 6))
            if eh == "raise":
                if out["status"] != "raised":
                    viol.append((f"{label}:error_not_raised", {"point": plan, "status": out["status"], "error": out["error"]}))
                elif not _identity(out, rt, fids):
                    viol.append((f"{label}:raised_error_is_not_the_injected_object", {"point": plan, "got": out["error"], "type": type(out["err_obj"]).__name__, "cause": type(getattr(out["err_obj"], "__cause__", None)).__name__}))
            else:
                if out["status"] != "failed":
                    viol.append((f"{label}:not_failed_result", {"point": plan, "status": out["status"], "error": out["error"]}))
                elif not _identity(out, rt, fids):
                    viol.append((f"{label}:result_error_is_not_the_injected_object", {"point": plan, "got": out["error"], "type": type(out["err_obj"]).__name__}))
                else:
                    _check_partial(doc, ref_steps, init_vals, w, label, failing_nodes, viol)
            if out["status"] in ("deadlock", "step_cap") or (out.get("sim") or {}).get("orphans"):
                viol.append((f"{label}:did_not_terminate_cleanly", {"status": out["status"], "sim": out.get("sim")}))
            _tag(viol, v_mark, plan)
    # top-level map: errors raised through map / collected per item
    if doc.get("top_map") and points and doc.get("only_points") is None:
        _top_map(doc, g, values, points, rng, res, rts, viol, kw0)
    res["violations"] = viol
    res["nontrivial"] = fired_any
    res["shape"] = gen.shape_of(g)
    res["sched"] = digest(sorted(set(sigs)), 6)
    res["sig"] = digest([res["shape"], canon(doc["inputs"]), res["sched"]], 8)
    res["hdigest"] = hist_digest(rts)
    res["stats"]["failure_points_enumerated"] = len(plans)
    return res


def _one_failing_item(doc, g, vals, mp, items, point, rng, res, rts, viol) -> None:
    """Only ONE item of a top-level map fails (the fault is conditioned on that item's input value): the FAILED result must sit at that
    item's position, carry the injected object, and every other position must hold a non-failed result - under bounded concurrency
    with items completing out of order as well."""
    n, i = point
    k = rng.randrange(len(items))
    cfg = dict(doc["async"][1], max_concurrency=rng.choice([1, 2, 2, None]))
    for mode, c in (("sync", None), ("async", cfg)):
        faults = [{"kind": "raise", "node": n, "inv": i, "fid": 0, "when": "before", "run_pred": {mp: items[k]}, "depth": 1}]
        w = run_world(g, vals, mode=mode, cfg=c, faults=faults, run_kwargs={"map_over": mp, "error_handling": "continue"}, op="map")
        rts.append(w["rt"])
        res["runs"] += 1
        sim_stats(res, w["out"])
        out, rt = w["out"], w["rt"]
        if len(rt.fired) != 1 or out["status"] != "list" or len(out["items"]) != len(items):
            continue
        res["stats"]["one_failing_map_item"] = res["stats"].get("one_failing_map_item", 0) + 1
        failed = [ix for ix, it in enumerate(out["items"]) if it["status"] == "failed"]
        if failed != [k]:
            viol.append((f"map_{mode}_continue:failed_result_at_wrong_position", {"failing_item": k, "failed_positions": failed, "items": items, "max_concurrency": (c or {}).get("max_concurrency")}))
        elif not _identity(out["items"][k], rt, [0]):
            viol.append((f"map_{mode}_continue:item_error_is_not_the_injected_object", {"item": k, "got": out["items"][k]["error"]}))


def _top_map(doc, g, values, points, rng, res, rts, viol, kw0) -> None:
    """runner.map over one external int input: the failing item's error must surface as the same object."""
    ext = [e for e in g["ext"] if e not in g["lists"] and e in doc["inputs"]["provide"]]
    if not ext or g["seeds"]:
        return
    mp = rng.choice(ext)
    base = doc["inputs"]["provide"][mp]
    items = [base, base + 1, base + 2][: rng.randint(1, 3)]
    n, i = rng.choice(points)

    def vals(graph):
        v = values(graph)
        v[mp] = list(items)
        return v

    if len(items) > 1 and len(set(items)) == len(items):
        _one_failing_item(doc, g, vals, mp, items, (n, i), rng, res, rts, viol)
    sync_items = None
    for mode, cfg in (("sync", None), ("async", doc["async"][0])):
        for eh in ("raise", "continue"):
            faults = [{"kind": "raise", "node": n, "inv": i, "fid": 0, "when": "before"}]
            if mode == "sync" and doc["pair_seed"] % 3 == 0 and not (rts[0].node_specs.get(n) or {}).get("gen"):
                faults[0]["exc"] = "stopiteration"
            kw = {"map_over": mp, "error_handling": eh}
            if doc.get("explicit_select"):
                emits0 = _emit_names(g)
                names = [o for nd in g["nodes"] for o in _top_outs(nd) if o not in emits0]
                if names:
                    kw.update({"select": list(dict.fromkeys(names)), "on_missing": "error"})
            w = run_world(g, vals, mode=mode, cfg=cfg, faults=faults, run_kwargs=kw, op="map")
            rts.append(w["rt"])
            res["runs"] += 1
            sim_stats(res, w["out"])
            out, rt = w["out"], w["rt"]
            label = f"map_{mode}_{eh}"
            if not rt.fired:
                continue
            res["stats"]["top_map_failures"] = res["stats"].get("top_map_failures", 0) + 1
            if eh == "raise":
                if doc.get("explicit_select") and out["status"] == "raised" and out["error"] and out["error"][0] == "ValueError" and "Requested outputs not found" in str(out["error"][1]):
                    # an item that does not reach the failure point (other branch) completes WITHOUT the selected outputs and is
                    # rejected by on_missing="error" before the failing item is reached: legitimate, not a masked failure
                    res["stats"]["top_map_item_rejected_by_on_missing"] = res["stats"].get("top_map_item_rejected_by_on_missing", 0) + 1
                    continue
                if out["status"] != "raised" or not _identity(out, rt, [0]):
                    viol.append((f"{label}:map_did_not_raise_the_injected_object", {"status": out["status"], "error": out["error"]}))
            else:
                if out["status"] != "list":
                    viol.append((f"{label}:map_continue_did_not_return_results", {"status": out["status"], "error": out["error"]}))
                    continue
                # partial values of failed items: what the sync map reports for item i is reported by the async map as well
                if mode == "sync":
                    sync_items = out["items"]
                elif sync_items is not None and len(sync_items) == len(out["items"]):
                    for ix, (si, ai) in enumerate(zip(sync_items, out["items"])):
                        if si["status"] == "failed" and ai["status"] == "failed":
                            sv, av = si["values"] or {}, ai["values"] or {}
                            # (a DIFFERENT value for a name a sibling re-produced in the failing step is C02's known finding, not a loss)
                            lost = {k: v for k, v in sv.items() if k not in av}
                            if lost:
                                viol.append((f"{label}:failed_map_item_lost_completed_values", {"item": ix, "sync_item_values": sv, "async_item_values": av}))
                                break
                failed = [it for it in out["items"] if it["status"] == "failed"]
                if not failed:
                    viol.append((f"{label}:no_failed_item_although_fault_fired", {}))
                injected = [it for it in failed if any(it["err_obj"] is x for x in rt.raised.get(0, []))]
                others = [it for it in failed if it not in injected]
                # every item in whose run the fault fired fails, and carries an injected object
                hit_items = {rt.labels.get(f["key"].split("/")[0], ((),))[0] for f in rt.fired}  # top-level item runs in which the fault fired
                if len(injected) != len(hit_items):
                    viol.append((f"{label}:item_error_is_not_the_injected_object", {"items_with_injected_error": len(injected), "items_hit_by_the_fault": len(hit_items), "other_errors": [it["error"] for it in others][:3]}))
                for it in others:
                    # an item the fault did not hit may only fail for the caller's own reason: a selected output that
                    # its (fault-free) run did not produce, with on_missing="error"
                    legit = doc.get("explicit_select") and it["error"] and it["error"][0] == "ValueError" and "Requested outputs not found" in str(it["error"][1])
                    if not legit:
                        viol.append((f"{label}:item_failed_with_unexpected_error", {"got": it["error"]}))


def shrink_candidates(doc: dict):
    from checks.c02 import shrink_program

    if doc.get("only_points") is None:
        return
    yield from shrink_program(doc)
    if doc.get("top_map"):
        c = copy.deepcopy(doc)
        c["top_map"] = False
        yield c


def narrow(doc: dict, cls: str, detail) -> dict | None:
    """Before shrinking: restrict the enumeration to the failing point."""
    pt = (detail or {}).get("point") if isinstance(detail, dict) else None
    if pt:
        c = copy.deepcopy(doc)
        c["only_points"] = [[list(p) for p in pt]]
        return c
    return None


def signature(doc: dict, cls: str, detail) -> str:
    return cls.split(":", 1)[-1]


def sample_repr(doc: dict, res: dict):
    from checks.c02 import sample_repr as sr

    d = {"graph": doc["graph"], "faults": "every (node, invocation<2) of the reference run in turn", "max_iterations": doc["max_iterations"], "error_handling": "raise and continue", "async": doc["async"], "sweep": False}
    return sr(d, res)


LEVEL_TEXT = (
    "Fault enumeration inside the simulator: for each generated program every function node (first two invocations) is made the failing "
    "one in turn, plus pairs failing in one step, under both error_handling modes, run and map, SyncRunner and AsyncRunner with seeded "
    "completion orders. The surfaced exception must BE the injected object (identity), and FAILED partial values are judged key by key "
    "against the fault-free run's state before the failing step (must), the same step's sibling outputs (may) and the failing node's "
    "outputs (forbidden)."
)
LEVEL_NOTE = "Enumeration is complete per program up to the stated caps (10/16 points + 3 pairs); programs and schedules are sampled. Trusts the step tap for state reconstruction; without it the partial-value part is skipped and evidence says so."
TECHNIQUE = "deterministic simulation with exhaustive node-failure injection per program; identity and partial-state oracle from the fault-free history"
DESIGN_REF = "DESIGN.md §4 C11"
