"""C12 — events of every terminated run form a complete, well-nested span tree."""

from __future__ import annotations

import copy
import random

from hypergraph import InMemoryCache

from hgsim import gen
from hgsim.case import BuildError, completion_sig, fault_counts, fill_values, hist_digest, run_world, sim_stats
from hgsim.driver import empty_result
from hgsim.procs import AsyncProc, SyncProc, check_span_tree
from hgsim.spec import iter_nodes
from hgsim.util import canon, digest

ID = "C12"
LEVEL = "exploration"
BUDGET = {"quick": (8, 550, 90), "thorough": (16, 15000, 600)}
RULE = (
    "seeded general programs (nested, mapped, cyclic, gated, optionally cacheable with a warm cache, optionally one or two injected node "
    "failures), top-level run and map, SyncRunner and AsyncRunner under SimLoop with body delays AND async recording processors that "
    "themselves yield (so emissions of concurrent nodes interleave); the recorded stream of each healthy processor is parsed by a span-tree "
    "checker; the loop is drained after the call to catch late events and orphan tasks. Non-trivial = the stream contains a nested run, a "
    "map, a cache hit, a route decision or a node error; distinct = digest of (program shape, inputs, faults, event-order signature)."
    ' Also: explicit select with on_missing="error" (a completed run whose selected output is missing ends as a failed, well-formed run), a cache backend whose k-th set()/get() raises, generator nodes, several kinds of injected exception.'
)
ASSUMPTIONS = ["paused runs are outside the statement and are not generated here", "RunEnd status 'failed' is expected when the caller sees an exception or a FAILED result"]


def _mark_cache(g: dict, rng: random.Random) -> None:
    for nd, _d, _p in iter_nodes(g):
        if nd["kind"] in ("fn", "route", "ifelse") and not nd.get("blk") and rng.random() < 0.5:
            nd["cache"] = True


def gen_case(rng: random.Random, tier: str) -> dict:
    g = gen.gen_program(rng, max_nodes=8 if tier == "thorough" else 6, feats={**gen.gen_feats(rng), "gens": rng.random() < 0.3})
    cache = rng.random() < 0.35
    if cache:
        _mark_cache(g, rng)
    inp = gen.program_inputs(rng, g, list_len=(0, 3))
    fns = gen.fn_nodes(g)
    faults = []
    if fns and rng.random() < 0.4:
        for fi in range(2 if rng.random() < 0.3 else 1):
            nd, _d = rng.choice(fns)
            faults.append({"kind": "raise", "node": nd["name"], "inv": rng.choice([0, 0, 1, None]), "when": rng.choice(["before", "after"]), "fid": fi, "exc": rng.choice(gen.EXC_KINDS)})
    if fns and rng.random() < 0.12:
        # a node function that re-seeds the global random module before sampling (span ids must not come from there)
        plain = [nd for nd, _d in fns if not nd.get("beh") and not nd.get("gen") and len(nd.get("outs", [])) == 1]
        if plain:
            rng.choice(plain)["beh"] = "reseed"
    ext = [e for e in g["ext"] if e not in g["lists"]]
    return {
        "graph": g,
        "inputs": inp,
        "faults": faults,
        "cache": cache,
        "error_handling": rng.choice(["raise", "continue"]),
        "max_iterations": rng.choice([None, 4, 9]) if g["seeds"] else None,
        "async": [gen.gen_async_cfg(rng, allow_hold=False) for _ in range(2)],
        "proc_yield_seed": rng.randrange(1 << 30),
        "top_map": rng.choice(ext) if (ext and not g["seeds"] and rng.random() < 0.25) else None,
        "top_map_n": rng.randint(0, 3),
        "reject": rng.random() < 0.08,
        "reject_kind": rng.choice(["missing", "missing", "on_missing", "select", "override", "maxconc0", "maxconc_neg"]),
        "select_seed": rng.randrange(1 << 30) if rng.random() < 0.3 else None,  # explicit select + on_missing="error"
        "cache_fault": rng.choice([None, None, ["set", rng.randrange(4)], ["get", rng.randrange(4)]]) if cache else None,  # the backend itself raises
    }


class FaultyCache:
    """A caller-supplied CacheBackend whose k-th set()/get() raises (disk full, quota, lost connection)."""

    def __init__(self, inner, kind: str, at: int, stats: dict) -> None:
        self.inner, self.kind, self.at, self.n, self.stats = inner, kind, at, 0, stats

    def _tick(self, kind: str) -> None:
        if kind == self.kind:
            i = self.n
            self.n += 1
            if i == self.at:
                self.stats["fault_cache_backend_raises_on_" + kind] = self.stats.get("fault_cache_backend_raises_on_" + kind, 0) + 1
                raise OSError(f"cache backend failure on {kind} #{i}")

    def get(self, key):
        self._tick("get")
        return self.inner.get(key)

    def set(self, key, value):
        self._tick("set")
        self.inner.set(key, value)


def gate_decisions(g: dict, rts: list) -> dict:
    """gate name -> set of repr(decision) the harness saw the gate function produce."""
    spec_of = {nd["name"]: nd for nd, _d, _p in iter_nodes(g) if nd["kind"] in ("route", "ifelse")}
    out: dict[str, set] = {}
    for rt in rts:
        for h in rt.history:
            if h["k"] == "exit" and h.get("nk") == "gate":
                nd = spec_of.get(h["n"])
                if nd is None:
                    continue
                d = h["v"]
                if nd["kind"] == "ifelse":
                    d = nd["when_true"] if d else nd["when_false"]
                elif d is None and nd.get("fallback") is not None:
                    d = nd["fallback"]
                out.setdefault(h["n"], set()).add(repr(d))
    return out


def observed_status(out: dict) -> str | None:
    s = out["status"]
    if s in ("completed", "failed"):
        return s
    if s == "raised":
        return "failed"
    if s == "list":
        return "completed"
    return None


def run_case(doc: dict) -> dict:
    res = empty_result()
    g = doc["graph"]
    base_values = fill_values(doc["inputs"], keep=g.get("seeds", []))
    op = "run"
    kw = {"error_handling": doc["error_handling"]}
    if doc.get("max_iterations"):
        kw["max_iterations"] = doc["max_iterations"]
    if doc.get("select_seed") is not None:
        srng = random.Random(doc["select_seed"])
        emits0 = {e for nd, _d, _p in iter_nodes(g) for e in nd.get("emit", [])}
        names = [o for o in gen.program_outputs(g) if o not in emits0]
        if names:
            kw["select"] = srng.sample(names, srng.randint(1, min(3, len(names))))
            kw["on_missing"] = "error"
    values = base_values
    if doc.get("top_map"):
        op = "map"
        mp = doc["top_map"]
        kw = dict({k_: v_ for k_, v_ in kw.items() if k_ in ("select", "on_missing")}, error_handling=doc["error_handling"], map_over=mp)

        def values(graph, _b=base_values, _mp=mp):  # noqa: F811
            v = _b(graph)
            v[_mp] = [v.get(_mp, 5) + j if isinstance(v.get(_mp, 5), int) else j for j in range(doc["top_map_n"])]
            return v

    rejecting = bool(doc.get("reject")) and (op == "run" or doc["top_map_n"] > 0)
    if rejecting:
        # a call rejected by validation must emit nothing - run() and map() alike (a required input missing, an unknown on_missing
        # policy, a select naming no output)
        rk = doc.get("reject_kind", "missing")
        if rk == "on_missing":
            kw["on_missing"] = "bogus"
        elif rk == "select":
            kw["select"] = ["no_such_output_name"]
        elif rk == "override":
            kw["on_internal_override"] = "bogus"
        elif rk in ("maxconc0", "maxconc_neg"):
            pass  # (AsyncRunner only: added per runner below)
        else:

            def values(graph, _b=values, _mp=doc.get("top_map")):  # noqa: F811
                v = _b(graph)
                req = [r for r in graph.inputs.required if r != _mp]
                if req:
                    v.pop(req[0], None)
                return v

    faults = doc.get("faults") or []
    viol: list = []
    rts = []
    sigs = []
    features = set()
    plans = [("sync", None)] + [("async", c) for c in doc["async"]]
    try:
        for label, cfg in plans:
            cache = InMemoryCache() if doc.get("cache") else None
            warm_rts = []
            if cache is not None and not (doc.get("cache_fault") and doc["cache_fault"][0] == "set"):
                # (no warm-up when set() is to fail: the measured run must be the one that stores)
                ww = run_world(g, values, mode=label, cfg=cfg, run_kwargs=dict(kw), op=op, cache=cache)
                warm_rts.append(ww["rt"])
                rts.append(ww["rt"])
                res["runs"] += 1
            box: dict = {}

            def procs(rt, _box=box, _async=(label == "async")):
                a = AsyncProc(rt, "rec_async", yield_seed=doc["proc_yield_seed"] if _async else None)
                s = SyncProc(rt, "rec_sync")
                _box["procs"] = [a, s]
                return [a, s]

            cache_m = cache
            if cache is not None and doc.get("cache_fault"):
                cache_m = FaultyCache(cache, doc["cache_fault"][0], doc["cache_fault"][1], res["stats"])
            kw_l = dict(kw)
            if rejecting and doc.get("reject_kind") in ("maxconc0", "maxconc_neg") and label == "async":
                # a concurrency limit that admits nothing: rejected like any other invalid option (never a hang, never a half-open run)
                kw_l["max_concurrency"] = 0 if doc["reject_kind"] == "maxconc0" else -1
                cfg = dict(cfg or {}, max_concurrency=None)
            w = run_world(g, values, mode=label, cfg=cfg, faults=copy.deepcopy(faults), run_kwargs=kw_l, op=op, cache=cache_m, processors_factory=procs)
            rts.append(w["rt"])
            res["runs"] += 1
            sim_stats(res, w["out"])
            fault_counts(w["rt"], res["stats"])
            out = w["out"]
            tag = f"{label}"
            rejected = (op == "run" or rejecting) and out["status"] == "raised" and out["error"] and out["error"][0] in ("MissingInputError", "ValueError", "IncompatibleRunnerError", "GraphConfigError")
            if rejected and "Requested outputs not found" in str(out["error"][1]):
                rejected = False  # on_missing="error" fires AFTER the run: an ordinary failed run, not a rejected call
            decs = gate_decisions(g, warm_rts + [w["rt"]])
            for p in box["procs"]:
                if rejected:
                    res["stats"]["rejected_calls"] = res["stats"].get("rejected_calls", 0) + 1
                    if op == "map":
                        res["stats"]["rejected_map_calls"] = res["stats"].get("rejected_map_calls", 0) + 1
                    if p.events or p.shutdowns:
                        viol.append((f"{tag}:rejected_call_emitted_events", {"proc": p.name, "events": len(p.events), "shutdowns": p.shutdowns, "error": out["error"]}))
                    continue
                st = observed_status(out)
                if st is None:
                    viol.append((f"{tag}:call_did_not_terminate", {"status": out["status"]}))
                    continue
                if op == "map" and out["status"] == "list" and not out["items"] and not p.events:
                    continue  # empty map: nothing runs, nothing is emitted
                for c, d in check_span_tree(p.events, observed_status=st, shutdowns=p.shutdowns, after_shutdown=p.after_shutdown, gspec=g, gate_decisions=decs):
                    viol.append((f"{tag}:{c}", dict(d, proc=p.name)))
                kinds = {type(e).__name__ for e in p.events}
                if "CacheHitEvent" in kinds:
                    features.add("cache_hit")
                if "RouteDecisionEvent" in kinds:
                    features.add("route_decision")
                if "NodeErrorEvent" in kinds:
                    features.add("node_error")
                if any(getattr(e, "is_map", False) for e in p.events):
                    features.add("map")
                if sum(1 for e in p.events if type(e).__name__ == "RunStartEvent") > 1:
                    features.add("nested_run")
            if (out.get("sim") or {}).get("orphans"):
                viol.append((f"{tag}:orphan_tasks_after_call", {"orphans": out["sim"]["orphans"]}))
            a, s = box["procs"]
            if not rejected and len(a.events) != len(s.events):
                viol.append((f"{tag}:processors_saw_different_streams", {"async_proc": len(a.events), "sync_proc": len(s.events)}))
            sigs.append(digest([(type(e).__name__, getattr(e, "node_name", None)) for e in a.events], 6))
    except BuildError:
        res["discard"] = "build_error"
        return res
    for f in sorted(features):
        res["stats"]["stream_with_" + f] = 1
    res["violations"] = viol
    res["nontrivial"] = bool(features)
    res["shape"] = gen.shape_of(g)
    res["sched"] = digest(sigs, 6)
    res["sig"] = digest([res["shape"], canon(doc["inputs"]), canon(faults), res["sched"]], 8)
    res["hdigest"] = hist_digest(rts)
    return res


def shrink_candidates(doc: dict):
    from checks.c02 import shrink_program

    yield from shrink_program(doc)
    for key, val in (("cache", False), ("top_map", None), ("max_iterations", None), ("reject", False), ("select_seed", None), ("cache_fault", None)):
        if doc.get(key):
            c = copy.deepcopy(doc)
            c[key] = val
            yield c
    if len(doc["async"]) > 1:
        for i in range(len(doc["async"])):
            c = copy.deepcopy(doc)
            del c["async"][i]
            yield c
    for i, a in enumerate(doc["async"]):
        if a.get("max_concurrency") is not None or a.get("shuffle") is not None or a["schedule"].get("choices") != [0]:
            c = copy.deepcopy(doc)
            c["async"][i] = {"schedule": {"mode": "delay", "seed": 0, "choices": [0], "delays": {}}, "shuffle": None, "max_concurrency": None}
            yield c


def signature(doc: dict, cls: str, detail) -> str:
    return cls.split(":", 1)[-1]


def sample_repr(doc: dict, res: dict):
    from checks.c02 import sample_repr as sr

    d = dict(doc, sweep=False)
    out = sr(d, res)
    out.update({"cache": doc["cache"], "top_map": doc["top_map"], "processors": "async recorder that yields + sync recorder"})
    return out


LEVEL_TEXT = (
    "Seeded exploration: tens of thousands of generated executions (nested, mapped, cyclic, cached, failing at a node) per run under both "
    "runners; under the async runner the completion order of bodies AND the suspension points inside the async processors are chosen by the "
    "simulator, so event emissions of concurrent nodes interleave in ways the natural event loop never produces. Every recorded stream is "
    "parsed by an independent span-tree checker; the loop is drained so late events and orphan tasks are seen."
)
LEVEL_NOTE = "Trusts the span-tree checker in hgsim/procs.py and the drain logic of SimLoop. Sampling, not proof."
TECHNIQUE = "deterministic simulation (seeded interleaving of node bodies and yielding event processors) + offline span-tree checker over the recorded event history"
DESIGN_REF = "DESIGN.md §4 C12"
