"""C03 — gate routing: a gated node runs only while a controlling gate selects it (trace invariant + exact-branch model)."""

from __future__ import annotations

import copy
import random

from hgsim import gen
from hgsim.case import BuildError, completion_sig, enters, fault_counts, fill_values, hist_digest, run_world, sim_stats
from hgsim.driver import empty_result
from hgsim.rt import decide
from hgsim.spec import iter_nodes
from hgsim.util import canon, digest, mix

ID = "C03"
LEVEL = "exploration"
BUDGET = {"quick": (8, 650, 90), "thorough": (16, 18000, 600)}
RULE = (
    "seeded programs dense in gates: if/else and multi-way route gates (single/multi target, fallback, None, END), open and closed by default, "
    "several gates sharing a target, gates fed by slow upstream values, gates inside ring loops and nested graphs; both runners, async under "
    "delays/ties/hold-open/ready-shuffle. Every start of a gated node in every execution is checked against the decisions recorded so far "
    "(trace invariant), gate/target overlap is checked per step and per in-flight set, and flat acyclic programs whose gates are closed or "
    "runnable no later than their targets are compared with a direct branch model. Non-trivial = some decision excluded a target whose data "
    "inputs were available; distinct = digest of (program shape, inputs, decisions taken, completion order)."
    ' Also varied: END anywhere in the declared target list or as the true branch of an if/else gate, fallback outside the declared targets, multi-target gates inside loops, gates built through @route/@ifelse decorators, explicit edges= that mirror the inferred topology; a gate that decides twice in one run (first on the signature default of its input: END; again once the input was produced) - the later decision must be taken and followed.'
)
ASSUMPTIONS = ["gate decision functions are pure functions of their arguments, so the harness knows every decision from the history", "no caching here (cached gates are C09/C12)"]


def gen_case(rng: random.Random, tier: str) -> dict:
    if rng.random() < 0.03:
        return gen_nested_branch(rng)
    feats = {"gates": True, "loops": rng.random() < 0.3, "nested": rng.random() < 0.4, "maps": False, "signals": False, "edge_defaults": False}
    g = gen.gen_program(rng, feats=feats, max_nodes=10 if tier == "thorough" else 8, p_gate=rng.choice([0.25, 0.35, 0.45]))
    # closed-by-default more often than the general generator, and some fallbacks
    for nd, _d, _p in iter_nodes(g):
        if nd["kind"] in ("route", "ifelse") and not nd.get("blk"):
            nd["default_open"] = rng.random() < 0.5
            if nd["kind"] == "route" and not nd.get("multi") and rng.random() < 0.25 and nd["targets"] != ["@END"]:
                nd["fallback"] = rng.choice(nd["targets"])
                nd["decide"]["choices"] = list(nd["decide"]["choices"]) + [None]
    if rng.random() < 0.35:
        # several gates sharing a target: a later single-target route gate also gets a target of an earlier gate (a node behind both)
        top = g["nodes"]
        gates = [i for i, nd in enumerate(top) if nd["kind"] == "route" and not nd.get("blk") and not nd.get("multi") and nd.get("decide", {}).get("op") == "mod"]
        anyg = [i for i, nd in enumerate(top) if nd["kind"] in ("route", "ifelse") and not nd.get("blk")]
        rng.shuffle(gates)
        for gj in gates:
            cands = []
            for gi in anyg:
                if gi == gj:
                    continue
                tg_i = top[gi].get("targets") or [top[gi].get("when_true"), top[gi].get("when_false")]
                for t in tg_i:
                    ti = next((k for k, nd in enumerate(top) if nd["name"] == t), None)
                    if ti is not None and ti > max(gi, gj) and t not in top[gj]["targets"] and not top[ti].get("blk"):
                        cands.append(t)
            if cands:
                t = rng.choice(cands)
                top[gj]["targets"] = list(top[gj]["targets"]) + [t]
                top[gj]["decide"]["choices"] = list(top[gj]["decide"]["choices"]) + [t, t]
                break
    if rng.random() < 0.3:
        gen.add_substring_names(rng, g)  # one target's name is a prefix of a sibling target's name
    regate = None
    if rng.random() < 0.1:
        # a gate that decides TWICE in one run: its input v carries a signature default, so it first decides on the default (END) and,
        # once v has been produced (1-2 steps later), decides again - "targets whose gate decided END do not start until a LATER decision
        # selects them" presupposes that the later decision is taken
        second = rng.choice(["rgT", "rgT", "@END"])
        chain = rng.choice([1, 2])
        nodes = [{"kind": "fn", "name": "rgP1", "params": [{"name": "rgx"}], "outs": ["rgv" if chain == 1 else "rgu"]}]
        if chain == 2:
            nodes.append({"kind": "fn", "name": "rgP2", "params": [{"name": "rgu"}], "outs": ["rgv"]})
        nodes += [
            {"kind": rng.choice(["route", "route", "ifelse"]), "name": "rgG", "params": [{"name": "rgv", "default": 5}], "targets": ["rgT", "@END"], "default_open": False, "blk": "regate",
             "decide": {"op": "script", "seq": ["@END", second]}},
            {"kind": "fn", "name": "rgT", "params": [{"name": "rgx"}], "outs": ["rgt"]},
            {"kind": "fn", "name": "rgU", "params": [{"name": "rgt"}], "outs": ["rgw"]},
        ]
        gnode = nodes[-3]
        if gnode["kind"] == "ifelse":
            gnode.update({"when_true": "rgT", "when_false": "@END", "decide": {"op": "script", "seq": [False, second == "rgT"]}})
            gnode.pop("targets")
        order = list(range(len(nodes)))
        rng.shuffle(order)
        g = {"name": "top", "nodes": nodes, "order": order, "ext": ["rgx"], "lists": [], "seeds": []}
        regate = {"gate": "rgG", "target": "rgT", "second": second}
    inp = gen.program_inputs(rng, g)
    if regate:
        inp["omit"] = []
    return {"regate": regate, "graph": g, "inputs": inp, "async": [gen.gen_async_cfg(rng) for _ in range(2)], "max_iterations": rng.choice([None, 6, 12]) if g["seeds"] else None,
            "api": {"decorators": rng.random() < 0.35, "explicit_edges": rng.random() < 0.3, "wrap_async": False}}


# ------------------------------------------------------------------ monitor
def gate_tables(g: dict):
    ctrl: dict[str, list[str]] = {}
    gates: dict[str, dict] = {}
    inner_name: dict[str, str] = {}
    for nd, _d, _p in iter_nodes(g):
        if nd["kind"] in ("route", "ifelse"):
            gates[nd["name"]] = nd
            tg = gen.gate_targets(nd)
            for t in tg:
                if t != "@END":
                    ctrl.setdefault(t, []).append(nd["name"])
        if nd["kind"] == "graph":
            inner_name[nd["graph"].get("name")] = nd["name"]
    return ctrl, gates, inner_name


def norm_decision(nd: dict, raw) -> list[str]:
    if nd["kind"] == "ifelse":
        raw = nd["when_true"] if raw else nd["when_false"]
    elif raw is None and nd.get("fallback") is not None:
        raw = nd["fallback"]
    if raw is None or raw == "@END":
        return []
    if isinstance(raw, list):
        return [t for t in raw if t != "@END"]
    return [raw]


def check_routing(rt, g: dict) -> tuple[list, dict]:
    ctrl, gates, inner_name = gate_tables(g)
    viol: list = []
    decisions: dict[str, dict[str, list[str]]] = {}
    inflight: dict[str, set] = {}
    probes = {"excluded_target": 0, "early_start_of_open_target": 0, "gated_starts": 0}
    key_node: dict[str, str] = {}

    def started(T: str, R: str) -> None:
        gs = ctrl.get(T)
        if not gs:
            return
        probes["gated_starts"] += 1
        dec = decisions.get(R, {})
        ok = False
        early = False
        for G in gs:
            if G in dec:
                if T in dec[G]:
                    ok = True
            elif gates[G].get("default_open", True):
                ok = True
                early = True
        if not ok:
            viol.append(("gated_node_started_without_selection", {"node": T, "run": R, "decisions": {G: dec.get(G, "undecided") for G in gs}, "default_open": {G: gates[G].get("default_open", True) for G in gs}}))
        elif early and not any(G in dec and T in dec[G] for G in gs):
            probes["early_start_of_open_target"] += 1

    for h in rt.history:
        k = h["k"]
        if k == "enter":
            R = h["r"]
            n = h["n"]
            if h.get("nk") == "gate":
                nd = gates.get(n)
                if nd is not None:
                    tg = gen.gate_targets(nd)
                    over = [t for t in tg if t in inflight.get(R, set())]
                    if over:
                        viol.append(("gate_entered_while_target_in_flight", {"gate": n, "targets_in_flight": over}))
                started(n, R)
            else:
                started(n, R)
                inflight.setdefault(R, set()).add(n)
                key_node[h["key"]] = n
        elif k in ("exit", "raise", "cancelled"):
            R = h.get("r")
            if h.get("nk") == "gate" and k == "exit":
                nd = gates.get(h["n"])
                if nd is not None:
                    d = norm_decision(nd, h["v"])
                    decisions.setdefault(R, {})[h["n"]] = d
                    tg = [t for t in gen.gate_targets(nd) if t != "@END"]
                    if any(t not in d for t in tg):
                        probes["excluded_target"] += 1
            else:
                inflight.get(R, set()).discard(h.get("n"))
        elif k == "run_begin" and h.get("depth", 1) > 1:
            label = rt.labels.get(h["r"], ())
            parent = rt.label_id(label[:-1]) if len(label) > 1 else "-"
            T = inner_name.get(h.get("g"))
            if T is not None:
                started(T, parent)
        elif k == "step_begin":
            ready = h.get("ready") or []
            for G in ready:
                nd = gates.get(G)
                if nd is None:
                    continue
                tg = gen.gate_targets(nd)
                both = [t for t in tg if t in ready]
                if both:
                    viol.append(("target_scheduled_in_the_step_of_its_gate", {"gate": G, "targets": both}))
    return viol, probes


# ------------------------------------------------------------ branch model
def branch_model(g: dict, provided: dict) -> dict | None:
    """Direct model for a flat acyclic program: evaluate gate, follow decision.

    Returns None when the program is outside the model's domain (loops, nesting, or a
    default-open gate that could become runnable later than one of its targets).
    """
    nodes = g["nodes"]
    if any(nd["kind"] == "graph" or nd.get("blk") for nd in nodes):
        return None
    ctrl, gates, _ = gate_tables(g)
    vals: dict = {}
    run_at: dict[str, float] = {}
    avail_at: dict[str, float] = {}
    decisions: dict[str, list[str]] = {}
    ran: dict[str, dict] = {}
    INF = float("inf")

    def data_ready(nd: dict):
        a = {}
        t = 0
        for p in nd.get("params", []):
            pn = p["name"]
            if pn in vals:
                a[pn] = vals[pn]
                t = max(t, avail_at[pn])
            elif pn in provided:
                a[pn] = provided[pn]
            elif "default" in p:
                a[pn] = p["default"]
            else:
                return None, INF
        return a, t + 1

    for nd in nodes:  # generation order is topological (gates only target later nodes)
        a, t_data = data_ready(nd)
        name = nd["name"]
        gs = ctrl.get(name, [])
        if nd["kind"] in ("route", "ifelse"):
            if a is None:
                run_at[name] = INF
                continue
            t = t_data
            if gs:
                return None  # gated gates: outside the simple model
            run_at[name] = t
            raw = decide(nd["decide"], a, 0, nd.get("fid", name))
            decisions[name] = norm_decision(nd, raw)
            ran[name] = a
            continue
        if a is None:
            run_at[name] = INF
            continue
        t = t_data
        if gs:
            for G in gs:
                if gates[G].get("default_open", True) and run_at.get(G, INF) > t_data:
                    return None  # an open gate might decide after the target could start
            act = [run_at[G] + 1 for G in gs if G in decisions and name in decisions[G]]
            if not act:
                run_at[name] = INF
                continue
            t = max(t_data, min(act))
        run_at[name] = t
        ran[name] = a
        for j, o in enumerate(nd.get("outs", [])):
            vals[o] = gen.node_out_value(nd, j, a)
            avail_at[o] = t
    return {"values": vals, "ran": ran}


def gen_nested_branch(rng: random.Random) -> dict:
    return {"kind": "nested_branch", "pick": rng.choice(["nbA", "nbB", "@END"]), "rename": rng.choice(["a", "b", "both", "none"]), "depth": rng.choice([1, 1, 2]),
            "closed": rng.random() < 0.5, "order_seed": rng.randrange(1 << 30), "async": [gen.gen_async_cfg(rng)]}


def run_nested_branch(doc: dict) -> dict:
    """A gate INSIDE a nested graph leaves one branch unselected; the wrapper renames the branch outputs. The outer graph sees only the
    output of the branch that ran: the consumer of the other one never starts and its name is absent from the result."""
    res = empty_result()
    ra = "nboa_r" if doc["rename"] in ("a", "both") else "nboa"
    rb = "nbob_r" if doc["rename"] in ("b", "both") else "nbob"
    inner = {"name": "NB", "order": [0, 1, 2], "nodes": [
        {"kind": "route", "name": "nbg", "params": [{"name": "nbx"}], "targets": ["nbA", "nbB", "@END"], "decide": {"op": "const", "value": doc["pick"]}, "default_open": not doc["closed"]},
        {"kind": "fn", "name": "nbA", "params": [{"name": "nbx"}], "outs": ["nboa"]},
        {"kind": "fn", "name": "nbB", "params": [{"name": "nbx"}], "outs": ["nbob"]}]}
    ren = {k: v for k, v in (("nboa", ra), ("nbob", rb)) if k != v}
    wrapper = {"kind": "graph", "name": "NB", "graph": inner, "renames": [{"outputs": ren}] if ren else []}
    if doc["depth"] == 2:
        wrapper = {"kind": "graph", "name": "NB2", "graph": {"name": "NB2", "nodes": [wrapper], "order": [0]}}
    nodes = [wrapper, {"kind": "fn", "name": "nbCa", "params": [{"name": ra}], "outs": ["nbra"]}, {"kind": "fn", "name": "nbCb", "params": [{"name": rb}], "outs": ["nbrb"]}]
    order = [0, 1, 2]
    random.Random(doc["order_seed"]).shuffle(order)
    spec = {"name": "top", "nodes": nodes, "order": order}
    ran_branch = {"nbA": ("nbA", ra, "nbCa", "nbra"), "nbB": ("nbB", rb, "nbCb", "nbrb")}.get(doc["pick"])
    expect_nodes = {"nbg"} | ({ran_branch[0], ran_branch[2]} if ran_branch else set())
    expect_keys = {ran_branch[1], ran_branch[3]} if ran_branch else set()
    viol: list = []
    rts = []
    try:
        for i, (mode, cfg) in enumerate([("sync", None)] + [("async", c) for c in doc["async"]]):
            w = run_world(copy.deepcopy(spec), {"nbx": 3}, mode=mode, cfg=cfg, run_kwargs={"error_handling": "continue"})
            rts.append(w["rt"])
            res["runs"] += 1
            out = w["out"]
            tag = f"{mode}{i}[nested_branch]"
            ran = {h["n"] for h in enters(w["rt"])}
            if out["status"] != "completed":
                viol.append((f"{tag}:run_not_completed", {"status": out["status"], "error": out["error"]}))
            elif ran != expect_nodes:
                viol.append((f"{tag}:executed_branches_differ_from_model", {"ran": sorted(ran), "expected": sorted(expect_nodes), "decision": doc["pick"], "renames": ren}))
            elif set(out["values"] or {}) != expect_keys:
                viol.append((f"{tag}:outputs_of_an_unselected_branch_appear", {"keys": sorted(out["values"] or {}), "expected": sorted(expect_keys), "values": out["values"]}))
    except BuildError:
        res["discard"] = "build_error"
        return res
    res["violations"] = viol
    res["nontrivial"] = True
    res["stats"]["nested_branch_with_renamed_outputs_cases"] = 1
    res["shape"] = digest(["nested_branch", doc["pick"], doc["rename"], doc["depth"], doc["closed"], order], 8)
    res["sched"] = "-"
    res["sig"] = res["shape"]
    res["hdigest"] = hist_digest(rts)
    return res


def run_case(doc: dict) -> dict:
    if doc.get("kind") == "nested_branch":
        return run_nested_branch(doc)
    res = empty_result()
    g = doc["graph"]
    values = fill_values(doc["inputs"], keep=g.get("seeds", []))
    kw = {"error_handling": "continue"}
    if doc.get("max_iterations"):
        kw["max_iterations"] = doc["max_iterations"]
    viol: list = []
    rts = []
    sigs = []
    excluded = 0
    plans = [("sync", None)] + [("async", c) for c in doc["async"]]
    try:
        for i, (mode, cfg) in enumerate(plans):
            w = run_world(gen.with_api(g, doc.get("api")), values, mode=mode, cfg=cfg, run_kwargs=dict(kw))
            rts.append(w["rt"])
            res["runs"] += 1
            sim_stats(res, w["out"])
            fault_counts(w["rt"], res["stats"])
            out = w["out"]
            tag = f"{mode}{i}"
            if out["status"] == "raised" and out["error"] and out["error"][0] in ("MissingInputError", "ValueError"):
                res["discard"] = "rejected_by_validation"
                return res
            v, probes = check_routing(w["rt"], g)
            viol += [(f"{tag}:{c}", d) for c, d in v]
            excluded += probes["excluded_target"]
            for k_, n_ in probes.items():
                res["stats"]["probe_" + k_] = res["stats"].get("probe_" + k_, 0) + n_
            if out["status"] in ("deadlock", "step_cap"):
                viol.append((f"{tag}:{out['status']}", {}))
            model = branch_model(g, w["values"])
            if model is not None and out["status"] == "completed":
                res["stats"]["exact_branch_model_applied"] = res["stats"].get("exact_branch_model_applied", 0) + 1
                ran_nodes = {h["n"] for h in enters(w["rt"])}
                exp_nodes = set(model["ran"])
                if ran_nodes != exp_nodes:
                    viol.append((f"{tag}:executed_branches_differ_from_model", {"extra": sorted(ran_nodes - exp_nodes), "missing": sorted(exp_nodes - ran_nodes)}))
                elif canon(out["values"]) != canon(model["values"]):
                    got = out["values"]
                    diff = {k: (got.get(k), model["values"].get(k)) for k in sorted(set(got) | set(model["values"])) if canon(got.get(k)) != canon(model["values"].get(k))}
                    viol.append((f"{tag}:outputs_differ_from_branch_model", {"diff(got,model)": diff}))
            rg = doc.get("regate")
            if rg and out["status"] == "completed" and {"rgP1", rg["gate"], rg["target"]} <= {nd["name"] for nd in g["nodes"]}:
                counts: dict[str, int] = {}
                for h in enters(w["rt"]):
                    counts[h["n"]] = counts.get(h["n"], 0) + 1
                res["stats"]["probe_gate_decided_twice"] = res["stats"].get("probe_gate_decided_twice", 0) + (1 if counts.get(rg["gate"], 0) >= 2 else 0)
                if counts.get(rg["gate"], 0) != 2:
                    viol.append((f"{tag}:gate_not_decided_again_after_its_input_was_produced", {"gate_evaluations": counts.get(rg["gate"], 0), "expected": 2}))
                exp_t = 1 if rg["second"] == rg["target"] else 0
                if counts.get(rg["target"], 0) != exp_t:
                    viol.append((f"{tag}:target_runs_differ_from_later_decision", {"target_runs": counts.get(rg["target"], 0), "expected": exp_t, "second_decision": rg["second"]}))
            sigs.append(completion_sig(w["rt"]))
    except BuildError:
        res["discard"] = "build_error"
        return res
    res["violations"] = viol
    res["nontrivial"] = excluded > 0
    res["shape"] = gen.shape_of(g)
    res["sched"] = digest(sigs, 6)
    res["sig"] = digest([res["shape"], canon(doc["inputs"]), res["sched"]], 8)
    res["hdigest"] = hist_digest(rts)
    return res


def shrink_candidates(doc: dict):
    if doc.get("kind") == "nested_branch":
        for k, v in (("depth", 1), ("rename", "a"), ("order_seed", 0)):
            if doc.get(k) != v:
                yield dict(doc, **{k: v})
        return
    from checks.c02 import shrink_program

    yield from shrink_program(doc)
    if doc.get("max_iterations"):
        c = copy.deepcopy(doc)
        c["max_iterations"] = None
        yield c
    if len(doc["async"]) > 1:
        for i in range(len(doc["async"])):
            c = copy.deepcopy(doc)
            del c["async"][i]
            yield c
    for i, a in enumerate(doc["async"]):
        simple = {"schedule": {"mode": "delay", "seed": 0, "choices": [0], "delays": {}}, "shuffle": None, "max_concurrency": None}
        if a != simple:
            c = copy.deepcopy(doc)
            c["async"][i] = simple
            yield c


def signature(doc: dict, cls: str, detail) -> str:
    return cls.split(":", 1)[-1]


def sample_repr(doc: dict, res: dict):
    if doc.get("kind") == "nested_branch":
        return {"template": "gate inside a nested graph, branch outputs renamed on the wrapper", **{k: doc[k] for k in ("pick", "rename", "depth", "closed")}}
    from checks.c02 import sample_repr as sr

    d = dict(doc, faults=[], error_handling="continue", sweep=False)
    return sr(d, res)


LEVEL_TEXT = (
    "Seeded exploration with a trace-level oracle: in every simulated execution (both runners; async completion orders chosen by the simulator, "
    "including hold-open release at quiescence) each start of a gated node is judged against the gate decisions recorded so far in that run, "
    "each step's ready set is checked for a gate scheduled together with its target, and gate entries are checked against in-flight targets. "
    "Flat acyclic programs inside the model's domain are additionally compared with a direct evaluate-gate-follow-decision model."
)
LEVEL_NOTE = "Trusts check_routing/branch_model in checks/c03.py and the step tap (without it the same-step rule is skipped and evidence says so)."
TECHNIQUE = "deterministic simulation; trace invariant over gate/target start events plus a branch reference model"
DESIGN_REF = "DESIGN.md §4 C03"
