"""C14 — interrupts pause before dependants run and resume to the same result (pause/resume histories)."""

from __future__ import annotations

import copy
import random

from hgsim import gen
from hgsim.case import BuildError, completion_sig, fault_counts, hist_digest, run_world, sim_stats
from hgsim.driver import empty_result
from hgsim.rt import interrupt_response
from hgsim.util import canon, digest

ID = "C14"
LEVEL = "exploration"
BUDGET = {"quick": (8, 500, 90), "thorough": (16, 12000, 600)}
RULE = (
    "seeded DAGs with 1-3 interrupt nodes at random positions (single/multi output, renamed inputs, sync, async or awaitable-returning plain handlers) and sibling nodes ready in "
    "the interrupt's step; a handler script decides which interrupts pause (handler returns None) and which auto-resolve. History: run -> PAUSED -> run "
    "again with the caller-held values plus the response under pause.response_key(s) -> ... -> COMPLETED (the pause is this system's crash/restart: only "
    "caller-held values survive). The same graphs with the interrupt inside a nested graph (depth 1-2) for pause identity. AsyncRunner under SimLoop with "
    "seeded delays on siblings and handlers. Reference = the run in which every handler itself returns the response. Non-trivial = at least one pause and "
    "one resume happened; distinct = digest of (program shape, interrupt positions, script, schedule)."
    ' Also: legal but falsy answers (0, False, "", []), interrupts that emit a signal a further node waits for, explicit select of all outputs with on_missing="error" on every call, wrappers mounted under a node name that differs from the inner graph\'s name, at most one handler may return None per run; cacheable interrupts on a cache-enabled runner: unanswered / answered / unanswered again / answered differently, each compared with the same call on a runner without a cache; on_internal_override error/warn/ignore on every call (an answer is a resume value, not an override, also for outputs nobody consumes).'
)
ASSUMPTIONS = [
    "consumers of an interrupt's output never carry a signature default for it (such a consumer legitimately runs early)",
    "answering a nested pause under its dotted key is not asserted (the statement only speaks of top-level resumption)",
    "any dependency-minimal unanswered pausing interrupt is accepted as the one that pauses",
]


def gen_case(rng: random.Random, tier: str) -> dict:
    g = gen.gen_dag(rng, max_nodes=8, p_edge_default=0.0, allow_zero_out=True)
    cands = [i for i, nd in enumerate(g["nodes"]) if nd["params"] and nd["outs"]]
    if not cands:
        g["nodes"].append({"kind": "fn", "name": "nx", "params": [{"name": g["ext"][0]}], "outs": ["ox_0"]})
        g["order"].append(len(g["nodes"]) - 1)
        cands = [len(g["nodes"]) - 1]
    picks = rng.sample(cands, min(len(cands), rng.randint(1, 3)))
    script: dict[str, list] = {}
    for i in picks:
        nd = g["nodes"][i]
        nd["kind"] = "interrupt"
        nd["async_handler"] = rng.choice([False, True, True, "wrapped"])  # wrapped: a plain callable returning an awaitable
        for p in nd["params"]:
            p.pop("default", None)
        if rng.random() < 0.3:
            p0 = nd["params"][0]["name"]
            nd["rename_inputs"] = {"r_" + p0: p0}
            nd["params"][0] = {"name": "r_" + p0}
        script[nd["name"]] = ["pause"] if rng.random() < 0.75 else []
        nd["script"] = []
        if rng.random() < 0.4:
            # legal answers that happen to be falsy
            nd["resp"] = [rng.choice(["zero", "false", "empty_str", "empty_list", "ambiguous", "ambiguous", "dict_own_key", "dict_own_key", None]) for _ in nd["outs"]]  # ambiguous: an array-like answer whose comparison has no truth value
    # some interrupts also emit an ordering signal that a further node waits for
    extra = []
    for i in picks:
        nd = g["nodes"][i]
        if rng.random() < 0.4:
            nd["emit"] = ["isig_" + nd["name"]]
            extra.append((i, {"kind": "fn", "name": "w_" + nd["name"], "params": [], "outs": ["wo_" + nd["name"]], "wait_for": ["isig_" + nd["name"]]}))
    for i, wnode in sorted(extra, key=lambda t: -t[0]):
        g["nodes"].insert(i + 1, wnode)
    g["order"] = list(range(len(g["nodes"])))
    rng.shuffle(g["order"])
    # external defaults must stay consistent: drop defaults of names an interrupt consumes
    int_consumed = set()
    for nd in g["nodes"]:
        if nd["kind"] == "interrupt":
            for p in nd["params"]:
                int_consumed.add(nd.get("rename_inputs", {}).get(p["name"], p["name"]))
    for nd in g["nodes"]:
        for p in nd["params"]:
            if p["name"] in int_consumed:
                p.pop("default", None)
    nest = rng.choice([0, 0, 0, 1, 2])
    inp = gen.gen_inputs(rng, g, p_bind=0.0, p_omit=0.3)
    cache_ints = sorted(nd["name"] for nd in g["nodes"] if nd["kind"] == "interrupt" and rng.random() < 0.7) if rng.random() < 0.3 else []
    return {"cache_ints": cache_ints, "graph": g, "inputs": inp, "script": script, "nest": nest, "nest_seed": rng.randrange(1 << 30), "cfg": gen.gen_async_cfg(rng, allow_hold=False), "ref_cfg": gen.gen_async_cfg(rng, allow_hold=False),
            "explicit_select": rng.random() < 0.3,  # select=<all data outputs>, on_missing="error" on every call of the history
            # policy for caller-supplied values that collide with internal values, on every call: an ANSWER to an interrupt is a resume
            # value, never an override - whether or not any node consumes that output
            "override_policy": rng.choice([None, None, "error", "warn", "ignore"])}


def _graph_name(nd: dict, p: dict) -> str:
    return nd.get("rename_inputs", {}).get(p["name"], p["name"])


def _tables(g: dict):
    prod = {o: nd["name"] for nd in g["nodes"] for o in nd["outs"]}
    sigprod = {e: nd["name"] for nd in g["nodes"] for e in nd.get("emit", [])}
    parents: dict[str, set] = {}
    for nd in g["nodes"]:
        ps = set()
        for p in nd["params"]:
            src = prod.get(_graph_name(nd, p))
            if src:
                ps.add(src)
        for wn in nd.get("wait_for", []):
            src = sigprod.get(wn) or prod.get(wn)
            if src:
                ps.add(src)  # a node waiting for the interrupt's signal depends on it as well
        parents[nd["name"]] = ps
    anc: dict[str, set] = {}
    for nd in g["nodes"]:  # topological
        a = set()
        for p in parents[nd["name"]]:
            a |= {p} | anc[p]
        anc[nd["name"]] = a
    return prod, anc


def _nested(doc: dict) -> tuple[dict, str]:
    """Wrap the interrupts (and the nodes between them) into a nested graph, depth 1-2. Returns (spec, prefix path)."""
    g = copy.deepcopy(doc["graph"])
    ints = [i for i, nd in enumerate(g["nodes"]) if nd["kind"] == "interrupt"]
    i = ints[0]
    inner_nodes = [g["nodes"][i]]
    rest = [nd for j, nd in enumerate(g["nodes"]) if j != i]
    # the wrapper is mounted under a node name that differs from the inner graph's own name (as_node(name=...)):
    # the pause path is made of NODE names
    alt = doc["nest_seed"] % 2 == 0
    inner = {"name": "H1g" if alt else "H1", "nodes": inner_nodes, "order": [0]}
    path = "H1"
    node = {"kind": "graph", "name": "H1", "graph": inner}
    if doc["nest"] == 2:
        node = {"kind": "graph", "name": "H2", "graph": {"name": "H2g" if alt else "H2", "nodes": [node], "order": [0]}}
        path = "H2/H1"
    nodes = rest + [node]
    return {"name": "top", "nodes": nodes, "order": list(range(len(nodes))), "ext": g["ext"]}, path


def run_case(doc: dict) -> dict:
    res = empty_result()
    g = doc["graph"]
    inp = doc["inputs"]
    script = doc["script"]
    viol: list = []
    rts = []
    sigs = []
    prod, anc = _tables(g)
    ints = {nd["name"]: nd for nd in g["nodes"] if nd["kind"] == "interrupt"}
    desc_of: dict[str, set] = {n: {m for m in anc if n in anc[m]} for n in ints}

    def values0(graph):
        prov = {k: v for k, v in inp["provide"].items() if k not in inp["omit"]}
        for r in graph.inputs.required:
            if r not in prov:
                prov[r] = inp["provide"].get(r, 17)
        return prov

    rkw = {}
    if doc.get("explicit_select"):
        names = [o for nd in g["nodes"] for o in nd["outs"]]
        if names:
            rkw = {"select": names, "on_missing": "error"}
    if doc.get("override_policy"):
        rkw = dict(rkw, on_internal_override=doc["override_policy"])
    try:
        # reference: every handler answers itself
        wref = run_world(g, values0, mode="async", cfg=doc["ref_cfg"], run_kwargs=dict(rkw))
        rts.append(wref["rt"])
        res["runs"] += 1
        ref = wref["out"]
        if ref["status"] == "raised" and ref["error"] and ref["error"][0] in ("MissingInputError", "ValueError"):
            res["discard"] = "rejected_by_validation"
            return res
        if ref["status"] != "completed":
            viol.append(("reference_with_auto_resolving_handlers_not_completed", {"status": ref["status"], "error": ref["error"]}))
            res["violations"] = viol
            return res
        ref_args = {h["n"]: h["a"] for h in wref["rt"].history if h["k"] == "enter" and h.get("nk") == "interrupt"}
        base_vals = dict(wref["values"])

        if doc["nest"]:
            _nested_identity(doc, base_vals, ref_args, res, rts, viol)
        if doc.get("cache_ints"):
            _cached_history(doc, base_vals, ref_args, rkw, res, rts, viol)
        if doc["nest"] == 2:
            _mapped_nest(doc, base_vals, res, rts, viol)
        if doc["nest"] == 1:
            _failing_sibling(doc, base_vals, res, rts, viol)
        held = dict(base_vals)  # what the caller holds: survives a pause
        answered: set[str] = set()
        pauses = resumes = 0
        completed = False
        for attempt in range(6):
            gs = copy.deepcopy(g)
            for nd in gs["nodes"]:
                if nd["kind"] == "interrupt":
                    nd["script"] = list(script.get(nd["name"], []))
            w = run_world(gs, dict(held), mode="async", cfg=doc["cfg"], run_kwargs=dict(rkw))
            rts.append(w["rt"])
            res["runs"] += 1
            sim_stats(res, w["out"])
            fault_counts(w["rt"], res["stats"])
            out, rt = w["out"], w["rt"]
            tag = f"run{attempt}"
            sigs.append(completion_sig(rt))
            if out["status"] == "paused":
                pauses += 1
                p = out["pause"]
                name = p["node_name"]
                if name not in ints:
                    viol.append((f"{tag}:pause_names_unknown_node", {"node_name": name}))
                    break
                nd = ints[name]
                if script.get(name) != ["pause"] or name in answered:
                    viol.append((f"{tag}:paused_at_interrupt_that_should_not_pause", {"node": name, "answered": sorted(answered)}))
                    break
                unanswered_up = [a for a in anc[name] if a in ints and script.get(a) == ["pause"] and a not in answered]
                if unanswered_up:
                    viol.append((f"{tag}:paused_out_of_dependency_order", {"node": name, "unanswered_upstream": unanswered_up}))
                if p["response_key"] != nd["outs"][0] or p["output_param"] != nd["outs"][0]:
                    viol.append((f"{tag}:wrong_response_key", {"got": p["response_key"], "expected": nd["outs"][0]}))
                exp_keys = {o: o for o in nd["outs"]}
                if p["response_keys"] != exp_keys:
                    viol.append((f"{tag}:wrong_response_keys", {"got": p["response_keys"], "expected": exp_keys}))
                rargs = ref_args.get(name, {})
                gnames = [_graph_name(nd, q) for q in nd["params"]]
                first = rargs.get(nd["params"][0]["name"])
                if canon(p["value"]) != canon(first):
                    viol.append((f"{tag}:pause_value_differs_from_interrupt_input", {"got": p["value"], "expected": first}))
                if len(gnames) > 1:
                    expv = {gn: rargs.get(q["name"]) for gn, q in zip(gnames, nd["params"])}
                    if canon(p["values"]) != canon(expv):
                        viol.append((f"{tag}:pause_values_differ_from_interrupt_inputs", {"got": p["values"], "expected": expv}))
                # no dependant of the interrupt's outputs ran in this run
                ran = [h["n"] for h in rt.history if h["k"] == "enter"]
                bad = sorted(set(ran) & desc_of[name])
                if bad:
                    viol.append((f"{tag}:dependant_of_interrupt_ran_before_the_answer", {"interrupt": name, "ran": bad}))
                # values: everything returned is correct; everything this run committed before the pause is returned
                vals = out["values"] or {}
                wrong = {k: (v, ref["values"].get(k)) for k, v in vals.items() if k in ref["values"] and canon(v) != canon(ref["values"][k])}
                if wrong:
                    viol.append((f"{tag}:paused_result_has_wrong_value", {"diff(got,reference)": wrong}))
                n_pauses = sum(1 for h in rt.history if h["k"] == "handler_pause")
                if n_pauses != 1:
                    viol.append((f"{tag}:interrupts_did_not_pause_one_at_a_time", {"handlers_that_returned_none_in_this_run": n_pauses}))
                committed = {}
                for h in rt.history:
                    if h["k"] == "exit" and h.get("nk") == "interrupt" and h.get("v") is not None:
                        # an interrupt whose handler answered by itself in this run: its answer is a computed value too
                        outs_i = ints[h["n"]]["outs"] if h["n"] in ints else []
                        v = h["v"]
                        if len(outs_i) == 1:
                            committed[outs_i[0]] = v
                        elif isinstance(v, dict):
                            committed.update({k: x for k, x in v.items() if k in outs_i})  # (the framework adds signal keys to the handler's dict)
                    if h["k"] == "exit" and h.get("nk") is None:
                        spec = rt.node_specs.get(h["n"])
                        outs = spec.get("outs", []) if spec else []
                        v = h["v"]
                        if len(outs) == 1:
                            committed[outs[0]] = v
                        elif len(outs) > 1 and isinstance(v, tuple):
                            committed.update(dict(zip(outs, v)))
                missing = {k: v for k, v in committed.items() if k not in vals}
                if missing:
                    viol.append((f"{tag}:value_computed_before_pause_not_returned", {"missing": missing}))
                # the caller answers: same response the handler itself would give
                hargs = {q["name"]: rargs.get(q["name"]) for q in nd["params"]}
                resp = interrupt_response(nd, hargs)
                if len(nd["outs"]) > 1:
                    for o in nd["outs"]:
                        held[p["response_keys"].get(o, o)] = resp[o]
                else:
                    held[p["response_key"]] = resp
                answered.add(name)
                resumes += 1
                continue
            if out["status"] != "completed":
                viol.append((f"{tag}:resumed_run_neither_paused_nor_completed", {"status": out["status"], "error": out["error"]}))
                break
            completed = True
            if canon(out["values"]) != canon(ref["values"]):
                got = out["values"]
                diff = {k: (got.get(k), ref["values"].get(k)) for k in sorted(set(got) | set(ref["values"])) if canon(got.get(k)) != canon(ref["values"].get(k))}
                viol.append((f"{tag}:resumed_result_differs_from_auto_resolved_run", {"diff(resumed,auto)": diff, "answered": sorted(answered)}))
            expected_pauses = sum(1 for n in ints if script.get(n) == ["pause"])
            if pauses != expected_pauses:
                viol.append((f"{tag}:number_of_pauses", {"pauses": pauses, "pausing_interrupts": expected_pauses}))
            break
        if not completed and not viol:
            viol.append(("history_never_completed", {"pauses": pauses}))
    except BuildError:
        res["discard"] = "build_error"
        return res
    res["violations"] = viol
    res["nontrivial"] = pauses >= 1 and resumes >= 1
    res["stats"]["fault_pause"] = pauses
    res["stats"]["resumes"] = resumes
    res["shape"] = digest([gen.shape_of(g), canon(script), doc["nest"]], 8)
    res["sched"] = digest(sigs, 6)
    res["sig"] = digest([res["shape"], canon(inp), res["sched"]], 8)
    res["hdigest"] = hist_digest(rts)
    return res


def _failing_sibling(doc, base_vals, res, rts, viol) -> None:
    """A nested graph that pauses and an independent sibling node that raises are ready in the same step: the outcome must not
    depend on the order of the node list (and nothing of a raised error may be dropped silently in one order only)."""
    g = doc["graph"]
    first = copy.deepcopy(next(nd for nd in g["nodes"] if nd["kind"] == "interrupt"))
    first["script"] = ["pause"]
    first.pop("emit", None)
    inner = {"kind": "graph", "name": "FH1", "graph": {"name": "FH1", "nodes": [first], "order": [0]}}
    sib = {"kind": "fn", "name": "fsib", "params": [{"name": "fsx"}], "outs": ["fso"]}
    vals = {"fsx": 1}
    for q in first["params"]:
        gn = first.get("rename_inputs", {}).get(q["name"], q["name"])
        vals[gn] = base_vals.get(gn, 7)
    outs = []
    for order in ([0, 1], [1, 0]):
        spec = {"name": "top", "nodes": [inner, sib], "order": order}
        try:
            w = run_world(copy.deepcopy(spec), dict(vals), mode="async", cfg=doc["cfg"], faults=[{"kind": "raise", "node": "fsib", "inv": 0, "fid": 0, "when": "before"}], run_kwargs={"error_handling": "continue"})
        except BuildError:
            return
        rts.append(w["rt"])
        res["runs"] += 1
        o = w["out"]
        outs.append([o["status"], o["error"] and o["error"][0], (o["pause"] or {}).get("node_name")])
    res["stats"]["probe_failing_sibling_beside_pausing_nested_graph"] = 1
    if outs[0] != outs[1]:
        viol.append(("nested:outcome_depends_on_node_order_when_a_sibling_fails_beside_a_pausing_nested_graph", {"nested_graph_listed_first": outs[0], "sibling_listed_first": outs[1]}))


def _mapped_nest(doc, base_vals, res, rts, viol) -> None:
    """The first interrupt two graph levels below a MAPPING node (map_over its first input): when a handler returns None the call
    must not end COMPLETED - it pauses, or the configuration is rejected (interrupts are declared incompatible with map execution)."""
    g = doc["graph"]
    first = copy.deepcopy(next(nd for nd in g["nodes"] if nd["kind"] == "interrupt"))
    first["script"] = ["pause", "pause", "pause"]
    first.pop("emit", None)
    pin = first.get("rename_inputs", {}).get(first["params"][0]["name"], first["params"][0]["name"])
    inner = {"kind": "graph", "name": "MH1", "graph": {"name": "MH1", "nodes": [first], "order": [0]}}
    mid = {"name": "MH2", "nodes": [inner], "order": [0]}
    spec = {"name": "top", "nodes": [{"kind": "graph", "name": "MH2", "graph": mid, "map_over": [pin], "map_mode": "zip", "error_handling": "raise"}], "order": [0]}
    vals = {}
    for q in first["params"]:
        gn = first.get("rename_inputs", {}).get(q["name"], q["name"])
        vals[gn] = base_vals.get(gn, 7)
    vals[pin] = [vals[pin], vals[pin]]
    try:
        w = run_world(spec, vals, mode="async", cfg=doc["cfg"])
    except BuildError:
        res["stats"]["mapped_nested_interrupt_rejected_at_construction"] = 1
        return
    rts.append(w["rt"])
    res["runs"] += 1
    out = w["out"]
    paused_handlers = sum(1 for h in w["rt"].history if h["k"] == "handler_pause")
    res["stats"]["probe_interrupt_below_mapping_node"] = 1
    if paused_handlers and out["status"] == "completed":
        viol.append(("mapped_nest:handler_returned_none_but_the_run_completed", {"values": out["values"], "handlers_that_returned_none": paused_handlers}))


def _cached_history(doc, base_vals, ref_args, rkw, res, rts, viol) -> None:
    """Cacheable interrupts on a runner with a cache: every call of a pause/answer history behaves as on a runner without one.

    Calls: (1) nothing answered, (2) every pausing interrupt answered, (3) nothing answered again, (4) every pausing interrupt answered
    DIFFERENTLY. Each is made on one shared InMemoryCache and, for comparison, without any cache.
    """
    from hypergraph import InMemoryCache

    g = doc["graph"]
    script = doc["script"]
    gs = copy.deepcopy(g)
    answers: dict = {}
    answers_alt: dict = {}
    for nd in gs["nodes"]:
        if nd["kind"] != "interrupt":
            continue
        nd["script"] = list(script.get(nd["name"], []))
        if nd["name"] in doc["cache_ints"]:
            nd["cache"] = True
        if script.get(nd["name"]) == ["pause"]:
            rargs = ref_args.get(nd["name"], {})
            resp = interrupt_response(nd, {q["name"]: rargs.get(q["name"]) for q in nd["params"]})
            if len(nd["outs"]) > 1:
                for o in nd["outs"]:
                    answers[o] = resp[o]
                    answers_alt[o] = ["alt", resp[o]]
            else:
                answers[nd["outs"][0]] = resp
                answers_alt[nd["outs"][0]] = ["alt", resp]
    if not answers:
        return
    cache = InMemoryCache()
    calls = [("unanswered", {}), ("answered", answers), ("unanswered_again", {}), ("answered_differently", answers_alt)]
    for label, extra in calls:
        held = dict(base_vals, **extra)
        outs = []
        for c in (cache, None):
            w = run_world(copy.deepcopy(gs), dict(held), mode="async", cfg=doc["cfg"], run_kwargs=dict(rkw), cache=c)
            rts.append(w["rt"])
            res["runs"] += 1
            o = w["out"]
            outs.append([o["status"], canon(o["values"]), (o["pause"] or {}).get("node_name"), o["error"]])
        res["stats"]["cached_interrupt_calls"] = res["stats"].get("cached_interrupt_calls", 0) + 1
        if outs[0] != outs[1]:
            viol.append((f"cached_history[{label}]:run_with_cache_differs_from_run_without", {"with_cache": outs[0], "without": outs[1], "cacheable_interrupts": doc["cache_ints"], "supplied": sorted(extra)}))
            return


def _nested_identity(doc, base_vals, ref_args, res, rts, viol) -> None:
    g = doc["graph"]
    first = next(nd for nd in g["nodes"] if nd["kind"] == "interrupt")
    spec, path = _nested(doc)
    for nd in spec["nodes"]:
        pass

    def setp(gr):
        for nd in gr["nodes"]:
            if nd["kind"] == "interrupt":
                nd["script"] = ["pause"] if nd["name"] == first["name"] else []
            elif nd["kind"] == "graph":
                setp(nd["graph"])

    setp(spec)
    try:
        w = run_world(spec, dict(base_vals), mode="async", cfg=doc["cfg"])
    except BuildError:
        res["stats"]["nested_variant_rejected"] = 1
        return
    rts.append(w["rt"])
    res["runs"] += 1
    out = w["out"]
    res["stats"]["probe_pause_inside_nested"] = 1
    if out["status"] != "paused":
        # an upstream top-level interrupt may legitimately have auto-resolved; this one must pause
        viol.append(("nested:run_did_not_pause", {"status": out["status"], "error": out["error"]}))
        return
    p = out["pause"]
    exp_name = f"{path}/{first['name']}"
    exp_key = path.replace("/", ".") + "." + first["outs"][0]
    if p["node_name"] != exp_name:
        viol.append(("nested:pause_node_path", {"got": p["node_name"], "expected": exp_name}))
    if p["response_key"] != exp_key:
        viol.append(("nested:pause_response_key", {"got": p["response_key"], "expected": exp_key}))
    exp_keys = {o: path.replace("/", ".") + "." + o for o in first["outs"]}
    if p["response_keys"] != exp_keys:
        viol.append(("nested:pause_response_keys", {"got": p["response_keys"], "expected": exp_keys}))
    rargs = ref_args.get(first["name"], {})
    if canon(p["value"]) != canon(rargs.get(first["params"][0]["name"])):
        viol.append(("nested:pause_value_differs_from_interrupt_input", {"got": p["value"], "expected": rargs.get(first["params"][0]["name"])}))
    prod, anc = _tables(g)
    desc = {m for m in anc if first["name"] in anc[m]}
    ran = {h["n"] for h in w["rt"].history if h["k"] == "enter"}
    if ran & desc:
        viol.append(("nested:dependant_of_interrupt_ran_before_the_answer", {"ran": sorted(ran & desc)}))
    # the PAUSED result of the OUTER run still holds what the outer graph computed in earlier steps: at least the outputs of the
    # interrupt's upstream function nodes (they completed, and were committed, before the nested graph could start)
    vals = out["values"] or {}
    lost = {}
    for h in w["rt"].history:
        if h["k"] == "exit" and h.get("nk") is None and h["n"] in anc.get(first["name"], ()):
            sp = w["rt"].node_specs.get(h["n"]) or {}
            outs_n = sp.get("outs", [])
            got = {outs_n[0]: h["v"]} if len(outs_n) == 1 else (dict(zip(outs_n, h["v"])) if isinstance(h["v"], tuple) else {})
            for k_, v_ in got.items():
                if k_ not in vals or canon(vals[k_]) != canon(v_):
                    lost[k_] = [v_, vals.get(k_, "<absent>")]
    if anc.get(first["name"]):
        res["stats"]["probe_outer_values_before_nested_pause"] = 1
    if lost:
        viol.append(("nested:value_computed_before_pause_not_returned", {"lost(computed,returned)": lost, "depth": doc["nest"]}))


def shrink_candidates(doc: dict):
    g = doc["graph"]
    for i in reversed(range(len(g["nodes"]))):
        c = copy.deepcopy(doc)
        removed = c["graph"]["nodes"].pop(i)
        c["graph"]["order"] = [j if j < i else j - 1 for j in c["graph"]["order"] if j != i]
        for o in removed["outs"]:
            if o not in c["graph"]["ext"]:
                c["graph"]["ext"].append(o)
            c["inputs"]["provide"].setdefault(o, 7)
        c["script"].pop(removed["name"], None)
        if not any(nd["kind"] == "interrupt" for nd in c["graph"]["nodes"]):
            continue
        yield c
    for i, nd in enumerate(g["nodes"]):
        if nd["kind"] == "interrupt":
            if sum(1 for n2 in g["nodes"] if n2["kind"] == "interrupt") > 1:
                c = copy.deepcopy(doc)
                c["graph"]["nodes"][i]["kind"] = "fn"
                c["graph"]["nodes"][i].pop("rename_inputs", None)
                for p in c["graph"]["nodes"][i]["params"]:
                    if p["name"].startswith("r_"):
                        p["name"] = p["name"][2:]
                c["script"].pop(nd["name"], None)
                yield c
            if nd.get("rename_inputs"):
                c = copy.deepcopy(doc)
                n2 = c["graph"]["nodes"][i]
                for p in n2["params"]:
                    if p["name"] in n2["rename_inputs"]:
                        p["name"] = n2["rename_inputs"][p["name"]]
                n2.pop("rename_inputs")
                yield c
            if len(nd["outs"]) > 1:
                c = copy.deepcopy(doc)
                c["graph"]["nodes"][i]["outs"] = nd["outs"][:1]
                yield c
            if doc["script"].get(nd["name"]) == ["pause"]:
                c = copy.deepcopy(doc)
                c["script"][nd["name"]] = []
                yield c
        if len(nd["params"]) > 1:
            for pi in range(len(nd["params"])):
                c = copy.deepcopy(doc)
                del c["graph"]["nodes"][i]["params"][pi]
                yield c
    if doc["nest"]:
        c = copy.deepcopy(doc)
        c["nest"] = 0
        yield c
    simple = {"schedule": {"mode": "delay", "seed": 0, "choices": [0], "delays": {}}, "shuffle": None, "max_concurrency": None}
    for key in ("cfg", "ref_cfg"):
        if doc[key] != simple:
            c = copy.deepcopy(doc)
            c[key] = simple
            yield c


def signature(doc: dict, cls: str, detail) -> str:
    return cls.split(":", 1)[-1]


def sample_repr(doc: dict, res: dict):
    return {"nodes": [[n["kind"], n["name"], [p["name"] for p in n["params"]], n["outs"], n.get("rename_inputs")] for n in doc["graph"]["nodes"]],
            "script": doc["script"], "nest_depth": doc["nest"], "inputs": doc["inputs"], "history": "run -> PAUSED -> run(values + response) ... -> COMPLETED"}


LEVEL_TEXT = (
    "Seeded exploration of pause/resume histories: for each generated graph, interrupt placement and handler script the simulator drives the whole "
    "conversation (each resume is a fresh top-level call that receives only the caller-held values - the system's restart) under seeded sibling/handler "
    "delays; every PAUSED result is checked for identity, key(s), shown value(s), 'no dependant entered' over the run's history and correctness/"
    "completeness of the returned values, and the final result must equal the run whose handlers answer by themselves."
)
LEVEL_NOTE = "Reference = auto-resolving run of the same graph (differential). Trusts the descendant relation computed from the spec."
TECHNIQUE = "deterministic simulation of pause/restart histories; auto-resolved run as reference + history monitor"
DESIGN_REF = "DESIGN.md §4 C14"
