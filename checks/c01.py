"""C01 — acyclic dataflow equals dependency-order evaluation (refinement against a reference evaluator)."""

from __future__ import annotations

import copy
import random

from hgsim import gen
from hgsim.case import BuildError, completion_sig, enters, fault_counts, hist_digest, run_world, sim_stats
from hgsim.driver import empty_result
from hgsim.util import canon, digest

ID = "C01"
LEVEL = "exploration"
BUDGET = {"quick": (8, 1200, 90), "thorough": (16, 60000, 600)}
RULE = (
    "seeded random gate-free DAG specs (1-8 nodes, fan-in/out, 0-3 outputs, defaults incl. upstream-fed, bound/provided/omitted "
    "external values, optional graph-level select, shuffled node list); each run on SyncRunner, on AsyncRunner under SimLoop with "
    "seeded delays/hold-open/ready-shuffle/max_concurrency, and as sync functions on AsyncRunner; compared with a topological "
    "reference evaluator. A case is non-trivial when the async run had >=2 bodies in flight or the DAG has a multi-output or "
    "multi-consumer value; distinct = distinct digest of (program shape, inputs, observed completion order)."
    ' Also varied per case: renamed function inputs (fresh names, parallel swaps, rotations, with defaults), falsy constant outputs (0, False, "", [], None), object reuse between derivations, part of the inputs passed as keyword arguments, nodes built through the @node decorator, plain functions returning coroutines, and two extra runs with max_iterations equal to the exact number of steps the DAG needs.'
)
ASSUMPTIONS = [
    "node functions are pure and total; values are 40-bit hashes so value collisions are negligible",
    "schedule dimension is secondary for this property: the main search dimension is the program",
]


def gen_case(rng: random.Random, tier: str) -> dict:
    g = gen.gen_dag(rng, max_nodes=10 if tier == "thorough" else 8)
    if rng.random() < 0.4:
        gen.add_fn_renames(rng, g)  # renamed function inputs: fresh names, parallel swaps, rotations
    inp = gen.gen_inputs(rng, g)
    produced = [o for nd in g["nodes"] for o in nd["outs"]]
    select = None
    if produced and rng.random() < 0.2:
        select = rng.sample(produced, rng.randint(1, min(3, len(produced))))
    if rng.random() < 0.3:
        gen.add_falsy_consts(rng, g)  # legal but falsy outputs: 0, False, "", [], None
    return {"graph": g, "inputs": inp, "select": select, "async": [gen.gen_async_cfg(rng) for _ in range(2)],
            "touch": rng.random() < 0.3, "kw_split": rng.randrange(1 << 30) if rng.random() < 0.3 else None,
            "api": {"decorators": rng.random() < 0.3, "explicit_edges": False, "wrap_async": rng.random() < 0.25, "siblings": rng.random() < 0.3, "rename_after_use": rng.random() < 0.4}}


def _provided(doc: dict, graph) -> dict:
    inp = doc["inputs"]
    prov = {k: v for k, v in inp["provide"].items() if k not in inp["omit"]}
    for r in graph.inputs.required:
        if r not in prov and r in inp["provide"]:
            prov[r] = inp["provide"][r]
    return prov


def _rerun_allowed(g: dict) -> set[str]:
    """Nodes that may legitimately run more than once: an upstream-fed parameter of the
    node or of one of its ancestors carries a signature default."""
    producer = {o: nd["name"] for nd in g["nodes"] for o in nd["outs"]}
    allowed: set[str] = set()
    for nd in g["nodes"]:
        for p in nd["params"]:
            src = producer.get(gen.gname(nd, p))
            if src is None:
                continue
            if "default" in p or src in allowed:
                allowed.add(nd["name"])
    return allowed


def _judge(doc: dict, w: dict, label: str, viol: list) -> None:
    g = doc["graph"]
    gspec = _gspec(doc)
    out, rt = w["out"], w["rt"]
    prov = w["prov"]
    model = gen.eval_dag(g, prov, doc["inputs"]["bind"])
    if out["status"] != "completed":
        viol.append((f"{label}:not_completed", {"status": out["status"], "error": out.get("error")}))
        return
    expect = dict(model["values"])
    if gspec.get("select"):
        expect = {k: v for k, v in expect.items() if k in gspec["select"]}
    if out["values"] != expect:
        got = out["values"]
        diff = {k: (got.get(k), expect.get(k)) for k in sorted(set(got) | set(expect)) if got.get(k) != expect.get(k)}
        viol.append((f"{label}:values_differ_from_model", {"diff(got,model)": diff}))
    rerun_ok = _rerun_allowed(g)
    for nd in g["nodes"]:
        inv = enters(rt, nd["name"])
        margs = model["args"][nd["name"]]
        if margs is None:
            if inv:
                viol.append((f"{label}:unsatisfiable_node_ran", {"node": nd["name"], "args": inv[0]["a"]}))
            continue
        if not inv:
            viol.append((f"{label}:runnable_node_never_ran", {"node": nd["name"]}))
            continue
        if canon(inv[-1]["a"]) != canon(margs):
            viol.append((f"{label}:last_invocation_args_differ", {"node": nd["name"], "got": inv[-1]["a"], "model": margs}))
        if len(inv) != 1 and nd["name"] not in rerun_ok:
            viol.append((f"{label}:node_ran_more_than_once", {"node": nd["name"], "times": len(inv)}))


def _gspec(doc: dict) -> dict:
    g = copy.deepcopy(doc["graph"])
    if doc.get("select"):
        g["select"] = doc["select"]
    if doc.get("touch"):
        g["touch"] = True
    return gen.with_api(g, doc.get("api"))


def run_case(doc: dict) -> dict:
    res = empty_result()
    gspec = _gspec(doc)
    bind = doc["inputs"]["bind"]
    viol: list = []
    rts = []
    worlds = []
    plans = [("sync", "sync", None)] + [(f"async{i}", "async", c) for i, c in enumerate(doc["async"])] + [("async_syncfn", "async_syncfn", doc["async"][0])]
    try:
        for label, mode, cfg in plans:
            w = _run(doc, gspec, mode, cfg, bind)
            w["label"] = label
            worlds.append(w)
            rts.append(w["rt"])
        # an iteration budget equal to the number of steps the DAG needs is enough (the run has just finished, it is not looping)
        from hgsim.loops import top_steps

        S = len(top_steps(worlds[0]["rt"]))
        if S >= 1 and getattr(worlds[0]["rt"], "tap_active", False):
            for label, mode, cfg in (("sync_exact_budget", "sync", None), ("async_exact_budget", "async", doc["async"][0])):
                w = _run(doc, gspec, mode, cfg, bind, run_kwargs={"max_iterations": S})
                w["label"] = label
                worlds.append(w)
                rts.append(w["rt"])
    except BuildError as e:
        res["discard"] = "build_error"
        res["stats"]["build_error"] = 1
        res["detail"] = str(e)
        return res
    multi = False
    consumers: dict[str, int] = {}
    for nd in doc["graph"]["nodes"]:
        if len(nd["outs"]) > 1:
            multi = True
        for p in nd["params"]:
            consumers[gen.gname(nd, p)] = consumers.get(gen.gname(nd, p), 0) + 1
    if any(v > 1 for v in consumers.values()):
        multi = True
    peak = 0
    for w in worlds:
        _judge(doc, w, w["label"], viol)
        res["runs"] += 1
        sim_stats(res, w["out"])
        fault_counts(w["rt"], res["stats"])
        peak = max([peak] + list(w["rt"].peak.values()))
        if w["rt"].violations:
            viol.extend((f"{w['label']}:{c}", d) for c, d in w["rt"].violations)
    res["violations"] = viol
    res["nontrivial"] = bool(multi or peak >= 2)
    res["shape"] = gen.shape_of(doc["graph"])
    res["sched"] = digest([completion_sig(w["rt"]) for w in worlds[1:]], 6)
    res["sig"] = digest([res["shape"], canon(doc["inputs"]), canon(doc.get("select")), res["sched"]], 8)
    res["hdigest"] = hist_digest(rts)
    if any(c.get("shuffle") is not None for c in doc["async"]):
        res["stats"]["fault_ready_shuffle_runs"] = 1
    return res


def _run(doc: dict, gspec: dict, mode: str, cfg, bind: dict, run_kwargs: dict | None = None) -> dict:
    w = run_world(gspec, lambda graph: _provided(doc, graph), mode=mode, cfg=cfg, bind=bind, kw_split=doc.get("kw_split"), run_kwargs=run_kwargs)
    w["prov"] = w["values"]
    return w


def shrink_candidates(doc: dict):
    g = doc["graph"]
    n = len(g["nodes"])
    # drop one node (consumers of its outputs then read them as external inputs)
    for i in reversed(range(n)):
        c = copy.deepcopy(doc)
        removed = c["graph"]["nodes"].pop(i)
        c["graph"]["order"] = [j if j < i else j - 1 for j in c["graph"]["order"] if j != i]
        for o in removed["outs"]:
            if o not in c["graph"]["ext"]:
                c["graph"]["ext"].append(o)
            c["inputs"]["provide"].setdefault(o, 7)
        if c.get("select"):
            c["select"] = [s for s in c["select"] if s not in removed["outs"]] or None
        yield c
    if doc.get("select"):
        c = copy.deepcopy(doc)
        c["select"] = None
        yield c
    for nd_i, nd in enumerate(g["nodes"]):
        if nd.get("rename_inputs"):
            continue  # (parameters of a renamed node are not dropped one by one: the rename map would dangle)
        for p_i, p in enumerate(nd["params"]):
            c = copy.deepcopy(doc)
            del c["graph"]["nodes"][nd_i]["params"][p_i]
            yield c
        if len(nd["outs"]) > 1:
            c = copy.deepcopy(doc)
            c["graph"]["nodes"][nd_i]["outs"] = nd["outs"][:-1]
            yield c
    if g["order"] != sorted(g["order"]):
        c = copy.deepcopy(doc)
        c["graph"]["order"] = sorted(g["order"])
        yield c
    for key in ("bind",):
        for k in list(doc["inputs"][key]):
            c = copy.deepcopy(doc)
            del c["inputs"][key][k]
            yield c
    for k in list(doc["inputs"]["omit"]):
        c = copy.deepcopy(doc)
        c["inputs"]["omit"].remove(k)
        yield c
    if len(doc["async"]) > 1:
        for i in range(len(doc["async"])):
            c = copy.deepcopy(doc)
            del c["async"][i]
            yield c
    for key in ("touch", "kw_split", "api"):
        if doc.get(key):
            c = copy.deepcopy(doc)
            c[key] = None
            yield c
    for i, a in enumerate(doc["async"]):
        if a.get("max_concurrency") is not None:
            c = copy.deepcopy(doc)
            c["async"][i]["max_concurrency"] = None
            yield c
        if a.get("shuffle") is not None:
            c = copy.deepcopy(doc)
            c["async"][i]["shuffle"] = None
            yield c
        if a["schedule"]["mode"] == "hold" or a["schedule"]["choices"] != [0]:
            c = copy.deepcopy(doc)
            c["async"][i]["schedule"] = {"mode": "delay", "seed": 0, "choices": [0], "delays": {}}
            yield c


def signature(doc: dict, cls: str, detail) -> str:
    return cls


def sample_repr(doc: dict, res: dict):
    return {"nodes": [[n["name"], [p["name"] + ("=d" if "default" in p else "") for p in n["params"]], n["outs"]] + ([{"rename_inputs": n["rename_inputs"]}] if n.get("rename_inputs") else []) for n in doc["graph"]["nodes"]],
            "order": doc["graph"]["order"], "inputs": doc["inputs"], "select": doc.get("select"),
            "async": [{"mode": a["schedule"]["mode"], "k": a["max_concurrency"], "shuffle": a["shuffle"] is not None} for a in doc["async"]]}

LEVEL_TEXT = (
    "Seeded exploration: tens of thousands of generated DAG programs per run, each executed by the real SyncRunner and by the real "
    "AsyncRunner under a simulated event loop with seeded completion orders, checked value-by-value and invocation-by-invocation "
    "against an independent 30-line dependency-order evaluator. Evidence, not proof: it samples programs and schedules."
)
LEVEL_NOTE = "Trusted: the reference evaluator in hgsim/gen.py:eval_dag, the spec compiler, SimLoop. Node bodies are generated pure functions."
TECHNIQUE = "deterministic simulation (virtual-time seeded asyncio loop) + refinement against a reference evaluator"
DESIGN_REF = "DESIGN.md §4 C01"
